// exploratory: scan running concurrently with a sequence of editor notifications (no close);
// the final index must equal the index of one of the sequential executions
// (E1..Ek ; scan ; Ek+1..En).
use pytest_language_server::FixtureDatabase;
use std::collections::BTreeSet;
use std::path::{Path, PathBuf};
use std::sync::Arc;

const FIX: &str = "import pytest\n\n";

fn fx(name: &str, params: &str) -> String {
    format!("@pytest.fixture\ndef {name}({params}):\n    return 1\n\n")
}

fn build(root: &Path, filler_dirs: usize) {
    let w = |p: &str, s: String| {
        let p = root.join(p);
        std::fs::create_dir_all(p.parent().unwrap()).unwrap();
        std::fs::write(p, s).unwrap();
    };
    w(
        "conftest.py",
        format!(
            "from .helpers import *\npytest_plugins = [\"mypkg.fixtures\"]\n{FIX}{}",
            fx("shared", "")
        ),
    );
    w("helpers.py", format!("{FIX}{}{}", fx("helper_fx", ""), fx("shared", "")));
    w("extra_helpers.py", format!("from .deep_helpers import *\n{FIX}{}{}", fx("extra_fx", "shared"), fx("shared", "")));
    w("deep_helpers.py", format!("{FIX}{}", fx("deep_fx", "")));
    w("sub/__init__.py", String::new());
    w(
        "sub/conftest.py",
        format!("from ..helpers import helper_fx\n{FIX}{}", fx("shared", "shared")),
    );
    w(
        "sub/test_sub.py",
        "def test_sub(shared, helper_fx, lib_fx, plug_fx):\n    pass\n".to_string(),
    );
    w(
        "test_main.py",
        format!("{FIX}{}def test_main(shared, helper_fx, extra_fx):\n    pass\n", fx("shared", "")),
    );
    // in-workspace plugin package (entry point + editable install)
    w("plug/__init__.py", String::new());
    w("plug/plugin.py", format!("from .pfix import *\npytest_plugins = [\"shared_plug\"]\n{FIX}{}", fx("plug_fx", "")));
    w("plug/pfix.py", format!("{FIX}{}{}", fx("pfix_fx", ""), fx("shared", "")));
    w("plug/pfix2.py", format!("from outside_plug import *\n{FIX}{}", fx("pfix2_fx", "")));
    w("shared_plug.py", format!("from outside_plug2 import *\n{FIX}{}", fx("shared_plug_fx", "")));
    w("outside_plug.py", format!("{FIX}{}", fx("outside_fx", "")));
    w("outside_plug2.py", format!("{FIX}{}", fx("outside2_fx", "")));
    for d in 0..filler_dirs {
        for f in 0..30 {
            let mut s = String::from(FIX);
            for k in 0..30 {
                s.push_str(&fx(&format!("fill_{k}"), "shared"));
                s.push_str(&format!("def test_{k}(fill_{k}, shared):\n    pass\n\n"));
            }
            w(&format!("fill_{d}/test_f{f}.py"), s);
        }
    }
    let sp = ".venv/lib/python3.12/site-packages";
    for f in 0..60 {
        let mut s = String::from(FIX);
        for k in 0..40 {
            s.push_str(&fx(&format!("builtin_{f}_{k}"), ""));
        }
        w(&format!("{sp}/_pytest/mod_{f}.py"), s);
    }
    w(&format!("{sp}/mypkg/__init__.py"), String::new());
    w(&format!("{sp}/mypkg/fixtures.py"), format!("{FIX}{}{}", fx("lib_fx", ""), fx("shared", "")));
    w(&format!("{sp}/plug-0.1.dist-info/entry_points.txt"), "[pytest11]\nplug = plug.plugin\n".to_string());
    w(
        &format!("{sp}/plug-0.1.dist-info/direct_url.json"),
        format!("{{\"url\": \"file://{}\", \"dir_info\": {{\"editable\": true}}}}", root.display()),
    );
    w(&format!("{sp}/__editable__.plug-0.1.pth"), format!("{}\n", root.display()));
}

type Event = (&'static str, String);

fn events() -> Vec<Event> {
    vec![
        (
            "conftest.py",
            format!(
                "from .helpers import *\nfrom .extra_helpers import *\npytest_plugins = [\"mypkg.fixtures\"]\n{FIX}{}",
                fx("shared", "")
            ),
        ),
        ("helpers.py", format!("{FIX}{}{}", fx("helper_fx", ""), fx("added_fx", "shared"))),
        ("sub/test_sub.py", "def test_sub(shared, helper_fx, lib_fx, plug_fx):\n    pass\n".to_string()),
        ("conftest.py", "from .helpers import *\ndef oops(:\n".to_string()),
        (
            "plug/plugin.py",
            format!("from .pfix import *\nfrom .pfix2 import *\npytest_plugins = [\"shared_plug\"]\n{FIX}{}", fx("plug_fx", "")),
        ),
        ("plug/pfix.py", format!("{FIX}{}", fx("pfix_fx", "shared"))),
        (
            "conftest.py",
            format!("from .extra_helpers import *\npytest_plugins = [\"mypkg.fixtures\"]\n{FIX}{}", fx("shared2", "")),
        ),
        ("test_main.py", "def test_main(shared, extra_fx):\n    pass\n".to_string()),
    ]
}

fn fire(db: &FixtureDatabase, root: &Path, ev: &Event) {
    let p = root.join(ev.0);
    db.document_opened(&p);
    db.analyze_file(p, &ev.1);
}

fn snapshot(db: &FixtureDatabase, root: &Path) -> BTreeSet<String> {
    let rel = |p: &PathBuf| p.strip_prefix(root).unwrap_or(p).display().to_string();
    let mut s = BTreeSet::new();
    for e in db.definitions.iter() {
        if e.key().starts_with("fill_") || e.key().starts_with("builtin_") {
            continue;
        }
        if e.value().is_empty() {
            s.insert(format!("EMPTYDEF {}", e.key()));
        }
        for d in e.value().iter() {
            let item = format!(
                "DEF {} {}:{} plugin={} third={} deps={:?}",
                d.name,
                rel(&d.file_path),
                d.line,
                d.is_plugin,
                d.is_third_party,
                d.dependencies
            );
            if !s.insert(item.clone()) {
                s.insert(format!("DUP {item}"));
            }
        }
    }
    for e in db.file_definitions.iter() {
        for n in e.value().iter() {
            if n.starts_with("fill_") || n.starts_with("builtin_") {
                continue;
            }
            s.insert(format!("FDEF {} {}", rel(e.key()), n));
        }
    }
    for e in db.usages.iter() {
        if rel(e.key()).starts_with("fill_") {
            continue;
        }
        for u in e.value().iter() {
            let item = format!("USE {} {}:{}:{}", u.name, rel(&u.file_path), u.line, u.start_char);
            if !s.insert(item.clone()) {
                s.insert(format!("DUP {item}"));
            }
        }
    }
    for e in db.usage_by_fixture.iter() {
        for (p, u) in e.value().iter() {
            if rel(p).starts_with("fill_") {
                continue;
            }
            let item = format!("UBF {} {}:{}:{}", u.name, rel(p), u.line, u.start_char);
            if !s.insert(item.clone()) {
                s.insert(format!("DUP {item}"));
            }
        }
    }
    s
}

#[test]
fn scan_with_concurrent_notifications() {
    let dir = tempfile::tempdir().unwrap();
    let root = dir.path().canonicalize().unwrap();
    let filler: usize = std::env::var("HUNT_FILLER").ok().and_then(|s| s.parse().ok()).unwrap_or(12);
    build(&root, filler);
    let evs = events();

    // sequential executions
    let mut seq: Vec<BTreeSet<String>> = Vec::new();
    for k in 0..=evs.len() {
        let db = FixtureDatabase::new();
        for ev in &evs[..k] {
            fire(&db, &root, ev);
        }
        db.scan_workspace(&root);
        for ev in &evs[k..] {
            fire(&db, &root, ev);
        }
        seq.push(snapshot(&db, &root));
    }
    for (k, s) in seq.iter().enumerate() {
        eprintln!("seq {k}: {} items, plugin defs: {:?}", s.len(), s.iter().filter(|x| x.starts_with("DEF") && x.contains("plugin=true")).collect::<Vec<_>>());
    }
    // how long does a scan take?
    let t0 = std::time::Instant::now();
    FixtureDatabase::new().scan_workspace(&root);
    let scan_time = t0.elapsed();
    eprintln!("scan takes {:?}", scan_time);

    let rounds: usize = std::env::var("HUNT_ROUNDS").ok().and_then(|s| s.parse().ok()).unwrap_or(40);
    let mut seed = 0x9e3779b97f4a7c15u64;
    let mut anomalies = 0;
    for round in 0..rounds {
        let db = Arc::new(FixtureDatabase::new());
        let scan = {
            let db = Arc::clone(&db);
            let root = root.clone();
            std::thread::spawn(move || db.scan_workspace(&root))
        };
        for ev in &evs {
            seed ^= seed << 13;
            seed ^= seed >> 7;
            seed ^= seed << 17;
            let frac = (seed % 1000) as f64 / 1000.0;
            let pause = scan_time.mul_f64(frac * 2.0 / evs.len() as f64);
            std::thread::sleep(pause);
            fire(&db, &root, ev);
        }
        scan.join().unwrap();
        let got = snapshot(&db, &root);
        eprintln!("round {round}: matches {:?}", seq.iter().enumerate().filter(|(_, s)| **s == got).map(|(k, _)| k).collect::<Vec<_>>());
        if !seq.contains(&got) {
            anomalies += 1;
            // nearest sequential execution
            let (k, best) = seq
                .iter()
                .enumerate()
                .min_by_key(|(_, s)| s.symmetric_difference(&got).count())
                .unwrap();
            eprintln!("round {round}: matches no sequential execution; nearest is scan at position {k}");
            for x in best.difference(&got) {
                eprintln!("   missing: {x}");
            }
            for x in got.difference(best) {
                eprintln!("   extra:   {x}");
            }
        }
    }
    assert_eq!(anomalies, 0);
}

pub fn build_pub(root: &Path, filler: usize) { build(root, filler) }
pub fn snapshot_pub(db: &FixtureDatabase, root: &Path) -> BTreeSet<String> {
    let rel = |p: &PathBuf| p.strip_prefix(root).unwrap_or(p).display().to_string();
    let mut s = BTreeSet::new();
    for e in db.definitions.iter() {
        for d in e.value().iter() {
            let item = format!("DEF {} {}:{} plugin={} third={}", d.name, rel(&d.file_path), d.line, d.is_plugin, d.is_third_party);
            if !s.insert(item.clone()) { s.insert(format!("DUP {item}")); }
        }
    }
    for e in db.usage_by_fixture.iter() {
        for (p, u) in e.value().iter() {
            let item = format!("UBF {} {}:{}:{}", u.name, rel(p), u.line, u.start_char);
            if !s.insert(item.clone()) { s.insert(format!("DUP {item}")); }
        }
    }
    s
}
