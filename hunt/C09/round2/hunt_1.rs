// hunt_1: a document that the editor opens and closes while the workspace scan is running
// (after the scan's walk analysed it, before the scan's import phase) drops out of the
// import phase's work list: the modules it imports are never indexed.  Every sequential
// order of {scan, open+close} indexes them.
//
// The calls on the database are exactly those of main.rs:
//   did_open  -> document_opened(path); analyze_file(path, text)
//   did_close -> document_closed(path); cleanup_file_cache(path)
use pytest_language_server::FixtureDatabase;
use std::path::Path;
use std::sync::Arc;

// Variant C: the document is NOT modified. conftest.py names a fixture module of an
// installed package in pytest_plugins (resolvable only once the scan found site-packages).
const CONFTEST_C: &str = "pytest_plugins = [\"mypkg.fixtures\"]\n";
// Variant A: conftest.py imports a workspace helper; the editor's buffer does not parse
// (the user typed something and closes the tab without saving).
const CONFTEST_A: &str = "from .helpers import *\n";
const CONFTEST_A_BROKEN: &str = "from .helpers import *\ndef oops(:\n";

const FIXTURE_MODULE: &str = "import pytest\n\n@pytest.fixture\ndef lib_fx():\n    return 1\n";
const TEST_MAIN: &str = "def test_main(lib_fx):\n    assert lib_fx\n";

fn build_workspace(root: &Path, conftest: &str) {
    std::fs::write(root.join("conftest.py"), conftest).unwrap();
    std::fs::write(root.join("helpers.py"), FIXTURE_MODULE).unwrap();
    std::fs::write(root.join("test_main.py"), TEST_MAIN).unwrap();
    // filler so that the parallel walk takes a little while
    for d in 0..16 {
        let dir = root.join(format!("pkg_{d}"));
        std::fs::create_dir_all(&dir).unwrap();
        for f in 0..40 {
            let mut s = String::from("import pytest\n\n");
            for k in 0..30 {
                s.push_str(&format!(
                    "@pytest.fixture\ndef shared_{k}():\n    return {k}\n\ndef test_{k}(shared_{k}, lib_fx):\n    pass\n\n"
                ));
            }
            std::fs::write(dir.join(format!("test_f{f}.py")), s).unwrap();
        }
    }
    // a venv: its (sequential) plugin phase runs between the walk and the import phase
    let sp = root.join(".venv/lib/python3.12/site-packages");
    let internal = sp.join("_pytest");
    std::fs::create_dir_all(&internal).unwrap();
    for f in 0..150 {
        let mut s = String::from("import pytest\n\n");
        for k in 0..40 {
            s.push_str(&format!(
                "@pytest.fixture\ndef builtin_{f}_{k}():\n    return {k}\n\n"
            ));
        }
        std::fs::write(internal.join(format!("mod_{f}.py")), s).unwrap();
    }
    // an installed (non entry point) package that ships a fixture module
    std::fs::create_dir_all(sp.join("mypkg")).unwrap();
    std::fs::write(sp.join("mypkg/__init__.py"), "").unwrap();
    std::fs::write(sp.join("mypkg/fixtures.py"), FIXTURE_MODULE).unwrap();
}

fn did_open(db: &FixtureDatabase, path: &Path, text: &str) {
    db.document_opened(path);
    db.analyze_file(path.to_path_buf(), text);
}

fn did_close(db: &FixtureDatabase, path: &Path) {
    db.document_closed(path);
    db.cleanup_file_cache(path);
}

fn lib_fx_files(db: &FixtureDatabase) -> Vec<String> {
    let mut v: Vec<String> = db
        .definitions
        .get("lib_fx")
        .map(|d| {
            d.iter()
                .map(|d| d.file_path.file_name().unwrap().to_string_lossy().into_owned())
                .collect()
        })
        .unwrap_or_default();
    v.sort();
    v
}

#[derive(Debug, PartialEq)]
enum Outcome {
    Kept,
    Lost,
    WindowMissed,
}

fn sequential(conftest_disk: &str, buffer: &str, expect: &[&str]) {
    let dir = tempfile::tempdir().unwrap();
    let root = dir.path().canonicalize().unwrap();
    build_workspace(&root, conftest_disk);
    let conftest = root.join("conftest.py");

    // scan ; open ; close
    let db = FixtureDatabase::new();
    db.scan_workspace(&root);
    did_open(&db, &conftest, buffer);
    did_close(&db, &conftest);
    assert_eq!(lib_fx_files(&db), expect, "scan; open; close");
    assert!(db.find_fixture_definition(&root.join("test_main.py"), 0, 16).is_some());

    // open ; close ; scan
    let db = FixtureDatabase::new();
    did_open(&db, &conftest, buffer);
    did_close(&db, &conftest);
    db.scan_workspace(&root);
    assert_eq!(lib_fx_files(&db), expect, "open; close; scan");
    assert!(db.find_fixture_definition(&root.join("test_main.py"), 0, 16).is_some());
}

fn concurrent(conftest_disk: &str, buffer: &str, expect: &[&str], variant_c: bool) -> Outcome {
    let dir = tempfile::tempdir().unwrap();
    let root = dir.path().canonicalize().unwrap();
    build_workspace(&root, conftest_disk);
    let conftest = root.join("conftest.py");

    let db = Arc::new(FixtureDatabase::new());
    let scan = {
        let db = Arc::clone(&db);
        let root = root.clone();
        std::thread::spawn(move || db.scan_workspace(&root))
    };

    // wait until the walk has analysed conftest.py, then the editor opens and closes it
    while !db.file_cache.contains_key(&conftest) {
        if scan.is_finished() {
            return Outcome::WindowMissed;
        }
        std::hint::spin_loop();
    }
    did_open(&db, &conftest, buffer);
    // (variant C needs the open to come before the scan discovered site-packages,
    //  otherwise the notification follows pytest_plugins itself)
    let too_late_c = variant_c && !db.site_packages_paths.lock().unwrap().is_empty();
    did_close(&db, &conftest);
    scan.join().unwrap();
    if too_late_c {
        return Outcome::WindowMissed;
    }

    if lib_fx_files(&db) == expect {
        Outcome::Kept
    } else {
        eprintln!(
            "lib_fx definitions: {:?} (expected {:?}); test_main(lib_fx) resolves to {:?}",
            lib_fx_files(&db),
            expect,
            db.find_fixture_definition(&root.join("test_main.py"), 0, 16)
                .map(|d| d.file_path)
        );
        Outcome::Lost
    }
}

#[test]
fn variant_c_sequential_orders_index_the_plugin_module() {
    sequential(CONFTEST_C, CONFTEST_C, &["fixtures.py"]);
}

#[test]
fn variant_a_sequential_orders_index_the_helper_module() {
    sequential(CONFTEST_A, CONFTEST_A_BROKEN, &["helpers.py"]);
}

#[test]
fn variant_c_unmodified_document_opened_and_closed_during_the_walk() {
    let mut outcomes = Vec::new();
    for _ in 0..10 {
        let o = concurrent(CONFTEST_C, CONFTEST_C, &["fixtures.py"], true);
        outcomes.push(o);
        if outcomes.last() == Some(&Outcome::Lost) {
            break;
        }
    }
    eprintln!("variant C outcomes: {:?}", outcomes);
    assert!(
        !outcomes.contains(&Outcome::Lost),
        "mypkg/fixtures.py (named in conftest.py's pytest_plugins) was never indexed"
    );
}

#[test]
fn variant_a_unparsable_buffer_opened_and_closed_before_the_import_phase() {
    let mut outcomes = Vec::new();
    for _ in 0..10 {
        let o = concurrent(CONFTEST_A, CONFTEST_A_BROKEN, &["helpers.py"], false);
        outcomes.push(o);
        if outcomes.last() == Some(&Outcome::Lost) {
            break;
        }
    }
    eprintln!("variant A outcomes: {:?}", outcomes);
    assert!(
        !outcomes.contains(&Outcome::Lost),
        "helpers.py (star-imported by conftest.py) was never indexed"
    );
}
