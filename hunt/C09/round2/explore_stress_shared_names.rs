// exploratory stress: concurrent re-analyses of distinct files sharing names
use pytest_language_server::FixtureDatabase;
use std::collections::BTreeSet;
use std::path::PathBuf;
use std::sync::Arc;

fn content_with(i: usize, with_shared: bool, variant: usize) -> String {
    let mut s = String::from("import pytest\n\n");
    if with_shared {
        s.push_str("@pytest.fixture\ndef shared():\n    return 1\n\n");
        s.push_str("@pytest.fixture\ndef shared():\n    return 2\n\n");
    }
    s.push_str(&format!(
        "@pytest.fixture\ndef own_{}(shared):\n    return shared\n\n",
        i
    ));
    if variant % 2 == 0 {
        s.push_str("def test_x(shared, other):\n    pass\n");
    } else {
        s.push_str("def test_x(other):\n    pass\n");
    }
    s
}

fn snapshot(db: &FixtureDatabase) -> (BTreeSet<String>, BTreeSet<String>, BTreeSet<String>, BTreeSet<String>) {
    let mut defs = BTreeSet::new();
    for e in db.definitions.iter() {
        if e.value().is_empty() {
            defs.insert(format!("EMPTY:{}", e.key()));
        }
        for (k, d) in e.value().iter().enumerate() {
            let _ = k;
            let item = format!("{}|{}|{}", d.name, d.file_path.display(), d.line);
            if !defs.insert(item.clone()) {
                defs.insert(format!("DUP:{}", item));
            }
        }
    }
    let mut fdefs = BTreeSet::new();
    for e in db.file_definitions.iter() {
        for n in e.value().iter() {
            fdefs.insert(format!("{}|{}", e.key().display(), n));
        }
    }
    let mut us = BTreeSet::new();
    for e in db.usages.iter() {
        for u in e.value().iter() {
            let item = format!("{}|{}|{}|{}", u.name, u.file_path.display(), u.line, u.start_char);
            if !us.insert(item.clone()) {
                us.insert(format!("DUP:{}", item));
            }
        }
    }
    let mut ubf = BTreeSet::new();
    for e in db.usage_by_fixture.iter() {
        if e.value().is_empty() {
            ubf.insert(format!("EMPTY:{}", e.key()));
        }
        for (p, u) in e.value().iter() {
            assert_eq!(p, &u.file_path);
            assert_eq!(e.key(), &u.name);
            let item = format!("{}|{}|{}|{}", u.name, u.file_path.display(), u.line, u.start_char);
            if !ubf.insert(item.clone()) {
                ubf.insert(format!("DUP:{}", item));
            }
        }
    }
    (defs, fdefs, us, ubf)
}

#[test]
fn stress_shared_names() {
    let dir = tempfile::tempdir().unwrap();
    let root = dir.path().canonicalize().unwrap();
    let n = 6usize;
    let paths: Vec<PathBuf> = (0..n).map(|i| root.join(format!("test_{}.py", i))).collect();
    for (i, p) in paths.iter().enumerate() {
        std::fs::write(p, content_with(i, true, 0)).unwrap();
    }
    for round in 0..300 {
        let db = Arc::new(FixtureDatabase::new());
        let mut hs = vec![];
        for i in 0..n {
            let db = Arc::clone(&db);
            let p = paths[i].clone();
            hs.push(std::thread::spawn(move || {
                for k in 0..20 {
                    let with_shared = (k + i) % 2 == 0;
                    db.analyze_file(p.clone(), &content_with(i, with_shared, k));
                }
                // final
                db.analyze_file(p.clone(), &content_with(i, i % 2 == 0, i));
            }));
        }
        for h in hs {
            h.join().unwrap();
        }
        let got = snapshot(&db);
        let exp_db = FixtureDatabase::new();
        for i in 0..n {
            exp_db.analyze_file(paths[i].clone(), &content_with(i, i % 2 == 0, i));
        }
        let exp = snapshot(&exp_db);
        assert_eq!(got.0, exp.0, "definitions differ in round {}", round);
        assert_eq!(got.1, exp.1, "file_definitions differ in round {}", round);
        assert_eq!(got.2, exp.2, "usages differ in round {}", round);
        assert_eq!(got.3, exp.3, "usage_by_fixture differ in round {}", round);
        assert_eq!(got.2, got.3, "usages vs usage_by_fixture in round {}", round);
    }
}
