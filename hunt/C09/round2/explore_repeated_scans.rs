// exploratory: repeated parallel scans of one workspace must give one index
use pytest_language_server::FixtureDatabase;
use std::collections::BTreeSet;
#[path = "explore_scan_vs_notifications.rs"]
#[allow(dead_code)]
mod hx;

#[test]
fn repeated_scans() {
    let dir = tempfile::tempdir().unwrap();
    let root = dir.path().canonicalize().unwrap();
    hx::build_pub(&root, 6);
    let mut first: Option<BTreeSet<String>> = None;
    for round in 0..40 {
        let db = FixtureDatabase::new();
        db.scan_workspace(&root);
        let mut s = hx::snapshot_pub(&db, &root);
        // resolution of every usage
        for e in db.usages.iter() {
            for u in e.value().iter() {
                let r = db.find_fixture_definition(&u.file_path, (u.line - 1) as u32, u.start_char as u32);
                s.insert(format!("RES {}:{}:{} {} -> {:?}", u.file_path.display(), u.line, u.start_char, u.name, r.map(|d| (d.file_path, d.line))));
            }
        }
        match &first {
            None => first = Some(s),
            Some(f) => {
                if *f != s {
                    for x in f.difference(&s) { eprintln!("round {round} missing {x}"); }
                    for x in s.difference(f) { eprintln!("round {round} extra {x}"); }
                    panic!("scan results differ");
                }
            }
        }
    }
}
