//! C09 hunt 4 (borderline: the edit and the scan meet on the SAME file): a test file is opened /
//! edited while the workspace scan is running and before the scan has reached it. The scan then
//! analyses the file with `analyze_file_fresh` (no clean-up of previous definitions, "we know
//! the database is empty"), on top of what the edit recorded:
//!   * every definition of the file is in the index twice (same path, same line),
//!   * a fixture that only exists on disk (deleted in the unsaved buffer) is resurrected,
//!   * the cached text of the open document is replaced by the on-disk text.

use pytest_language_server::FixtureDatabase;
use std::fs;
use std::sync::Arc;

#[test]
fn open_test_file_while_scan_is_running() {
    let dir = tempfile::tempdir().unwrap();
    let root = dir.path().canonicalize().unwrap();
    fs::create_dir_all(root.join("filler")).unwrap();
    for i in 0..400 {
        let mut s = String::from("import pytest\n\n");
        for j in 0..20 {
            s.push_str(&format!(
                "@pytest.fixture\ndef shared_{j}():\n    return {j}\n\n\ndef test_{i}_{j}(shared_{j}):\n    pass\n\n"
            ));
        }
        fs::write(root.join("filler").join(format!("test_f{i}.py")), s).unwrap();
    }
    let disk = "import pytest\n\n\n@pytest.fixture\ndef kept():\n    return 1\n\n\n@pytest.fixture\ndef disk_only():\n    return 2\n\n\ndef test_it(kept):\n    pass\n";
    // unsaved buffer: `disk_only` was deleted, `buffer_only` was added
    let buffer = "import pytest\n\n\n@pytest.fixture\ndef kept():\n    return 1\n\n\n@pytest.fixture\ndef buffer_only():\n    return 3\n\n\ndef test_it(kept):\n    pass\n";
    let path = root.join("test_open.py");
    fs::write(&path, disk).unwrap();

    let db = Arc::new(FixtureDatabase::new());
    let scan_db = Arc::clone(&db);
    let scan_root = root.clone();
    let scan = std::thread::spawn(move || scan_db.scan_workspace(&scan_root));
    while db.workspace_root.lock().unwrap().is_none() {
        std::hint::spin_loop();
    }
    db.analyze_file(path.clone(), buffer); // didOpen / didChange with the unsaved buffer
    let overlapped = !scan.is_finished();
    scan.join().unwrap();
    assert!(overlapped, "test set-up: the edit must overlap the scan");

    let kept: Vec<_> = db
        .definitions
        .get("kept")
        .map(|d| d.iter().map(|d| (d.file_path.clone(), d.line)).collect())
        .unwrap_or_default();
    let kept_usages = db
        .usage_by_fixture
        .get("kept")
        .map(|u| u.iter().filter(|(p, _)| *p == path).count())
        .unwrap_or(0);
    let disk_only = db.definitions.contains_key("disk_only");
    let cached_is_buffer = db.file_cache.get(&path).map(|c| c.as_str() == buffer);

    let mut problems = Vec::new();
    if kept.len() != 1 {
        problems.push(format!("definitions[kept] = {:?} (expected exactly one)", kept));
    }
    if kept_usages != 1 {
        problems.push(format!(
            "usage_by_fixture[kept] has {} entries for test_open.py (expected 1)",
            kept_usages
        ));
    }
    if disk_only {
        problems.push("`disk_only` (deleted in the open buffer) is in the index".to_string());
    }
    if cached_is_buffer != Some(true) {
        problems.push("file_cache[test_open.py] is no longer the open buffer".to_string());
    }
    assert!(problems.is_empty(), "\n{}", problems.join("\n"));
}
