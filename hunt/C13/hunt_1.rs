// hunt_1: relocation invariance / "under the root" broken by absolute-import
// resolution that walks up PAST the workspace root to the filesystem root.
//
// The same workspace (byte-identical tree) is placed at two absolute locations.
// At location A an *ancestor* directory of the workspace happens to contain a
// file `helpers.py` (nothing to do with the project).  The project's conftest.py
// does `from helpers import *` (in the real project `helpers` is e.g. an installed
// package that the server cannot see).  The scan outcome, relative to the root,
// must be the same at both locations.
use pytest_language_server::FixtureDatabase;
use std::collections::BTreeSet;
use std::fs;
use std::path::Path;

fn make_workspace(root: &Path) {
    fs::create_dir_all(root.join("tests")).unwrap();
    fs::write(
        root.join("conftest.py"),
        "import pytest\nfrom helpers import *\n\n@pytest.fixture\ndef local_fix():\n    return 1\n",
    )
    .unwrap();
    fs::write(
        root.join("tests/test_a.py"),
        "def test_a(local_fix):\n    pass\n",
    )
    .unwrap();
}

/// (relative-or-absolute file, fixture name) for every definition in the index
fn outcome(db: &FixtureDatabase, root: &Path) -> BTreeSet<(String, String)> {
    let root = root.canonicalize().unwrap();
    let mut out = BTreeSet::new();
    for e in db.definitions.iter() {
        for d in e.value() {
            let rel = match d.file_path.strip_prefix(&root) {
                Ok(r) => r.to_string_lossy().to_string(),
                Err(_) => format!("<OUTSIDE ROOT> {}", d.file_path.display()),
            };
            out.insert((rel, d.name.clone()));
        }
    }
    out
}

#[test]
fn scan_outcome_is_independent_of_what_lives_above_the_root() {
    let tmp = tempfile::tempdir().unwrap();

    // Location A: <tmp>/home_a/work/proj ; <tmp>/home_a/helpers.py is NOT part of the workspace
    let root_a = tmp.path().join("home_a/work/proj");
    make_workspace(&root_a);
    fs::write(
        tmp.path().join("home_a/helpers.py"),
        "import pytest\n\n@pytest.fixture\ndef stranger_fix():\n    return 'not in the workspace'\n",
    )
    .unwrap();

    // Location B: <tmp>/home_b/work/proj ; identical tree, nothing above it
    let root_b = tmp.path().join("home_b/work/proj");
    make_workspace(&root_b);

    let db_a = FixtureDatabase::new();
    db_a.scan_workspace(&root_a);
    let db_b = FixtureDatabase::new();
    db_b.scan_workspace(&root_b);

    let out_a = outcome(&db_a, &root_a);
    let out_b = outcome(&db_b, &root_b);
    println!("location A: {:#?}", out_a);
    println!("location B: {:#?}", out_b);

    // every indexed file must be under the root
    assert!(
        out_a.iter().all(|(f, _)| !f.starts_with("<OUTSIDE ROOT>")),
        "a file outside the workspace root was indexed: {:#?}",
        out_a
    );
    assert_eq!(out_a, out_b, "scan outcome depends on where the workspace lives");
}

#[test]
fn unused_report_is_independent_of_location() {
    // Same thing seen through the public CLI query: `fixtures unused`
    let tmp = tempfile::tempdir().unwrap();
    let root_a = tmp.path().join("x/proj");
    make_workspace(&root_a);
    fs::write(
        tmp.path().join("helpers.py"),
        "import pytest\n\n@pytest.fixture\ndef stranger_fix():\n    return 0\n",
    )
    .unwrap();
    let db = FixtureDatabase::new();
    db.scan_workspace(&root_a);
    let unused = db.get_unused_fixtures();
    println!("unused: {:?}", unused);
    assert!(
        unused.is_empty(),
        "a fixture from a file two levels ABOVE the workspace root is reported as unused: {:?}",
        unused
    );
}
