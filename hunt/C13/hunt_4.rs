// hunt_4: symlinks inside the workspace.
//  (a) a symlinked DIRECTORY below the root (tests -> ../shared_tests, a common monorepo /
//      vendored-checkout layout) is never entered: WalkDir is used with follow_links(false),
//      so none of pytest's files in it are indexed (pytest does collect through directory
//      symlinks, and has not resolved them since 6.0).
//  (b) a symlinked FILE is read through the link, then keyed by its canonical target and analysed
//      with `analyze_file_fresh` (which never clears earlier records): the target's definitions
//      and usages are recorded TWICE, and nothing is recorded at the link's own location.
use pytest_language_server::FixtureDatabase;
use std::fs;
use std::os::unix::fs::symlink;

#[test]
fn a_symlinked_directory_is_scanned() {
    let tmp = tempfile::tempdir().unwrap();
    let root = tmp.path().join("proj");
    let shared = tmp.path().join("shared_tests");
    fs::create_dir_all(&root).unwrap();
    fs::create_dir_all(&shared).unwrap();
    fs::write(
        shared.join("conftest.py"),
        "import pytest\n\n@pytest.fixture\ndef shared_fix():\n    return 1\n",
    )
    .unwrap();
    fs::write(shared.join("test_s.py"), "def test_s(shared_fix):\n    pass\n").unwrap();
    // proj/tests -> ../shared_tests
    symlink(&shared, root.join("tests")).unwrap();
    assert!(root.join("tests/conftest.py").is_file());

    let db = FixtureDatabase::new();
    db.scan_workspace(&root);
    println!("files indexed: {}", db.file_cache.len());
    assert!(
        db.definitions.contains_key("shared_fix"),
        "proj/tests/conftest.py (tests is a symlink to a directory) was not indexed; {} files indexed",
        db.file_cache.len()
    );
}

#[test]
fn b_symlinked_file_is_indexed_once() {
    let tmp = tempfile::tempdir().unwrap();
    let root = tmp.path().join("proj");
    fs::create_dir_all(root.join("sub")).unwrap();
    fs::write(
        root.join("conftest.py"),
        "import pytest\n\n@pytest.fixture\ndef fix():\n    return 1\n",
    )
    .unwrap();
    fs::write(root.join("test_a.py"), "def test_a(fix):\n    pass\n").unwrap();
    // sub/test_b.py -> ../test_a.py
    symlink(root.join("test_a.py"), root.join("sub/test_b.py")).unwrap();
    // sub/conftest.py -> ../conftest.py
    symlink(root.join("conftest.py"), root.join("sub/conftest.py")).unwrap();

    let db = FixtureDatabase::new();
    db.scan_workspace(&root);

    let defs = db.definitions.get("fix").unwrap().clone();
    for d in &defs {
        println!("definition of fix: {:?}:{}", d.file_path, d.line);
    }
    let test_a = root.join("test_a.py").canonicalize().unwrap();
    let usages = db.usages.get(&test_a).map(|u| u.len()).unwrap_or(0);
    println!("usages recorded for test_a.py: {}", usages);
    let refs = db.find_fixture_references("fix");
    println!("references to fix: {}", refs.len());

    assert_eq!(defs.len(), 1, "the single `def fix` is in the index {} times", defs.len());
    assert_eq!(usages, 1, "the single usage in test_a.py is recorded {} times", usages);
}
