#!/usr/bin/env python3
"""hunt_3: the CLI (`fixtures list` / `fixtures unused`) ignores the configured exclude patterns.

The same workspace, the same pyproject.toml:
  * the language server (stdio) honours `[tool.pytest-language-server] exclude`
  * `pytest-language-server fixtures unused <root>` / `fixtures list <root>` do not even load
    the configuration (src/main.rs:415-416 and 451-452 call `scan_workspace`, no Config::load)

Exit status 1 (and a FAIL line) when the two front ends disagree about what was indexed.
"""
import json
import os
import subprocess
import sys
import tempfile

HERE = os.path.dirname(os.path.abspath(__file__))
BIN = os.environ.get("PLS_BIN", os.path.join(HERE, "target/debug/pytest-language-server"))


def build(root):
    os.makedirs(os.path.join(root, "legacy"))
    os.makedirs(os.path.join(root, "tests"))
    with open(os.path.join(root, "pyproject.toml"), "w") as f:
        f.write('[tool.pytest-language-server]\nexclude = ["legacy/**"]\n')
    with open(os.path.join(root, "legacy", "conftest.py"), "w") as f:
        f.write("import pytest\n\n@pytest.fixture\ndef legacy_fix():\n    return 1\n")
    with open(os.path.join(root, "tests", "conftest.py"), "w") as f:
        f.write("import pytest\n\n@pytest.fixture\ndef live_fix():\n    return 1\n")
    with open(os.path.join(root, "tests", "test_a.py"), "w") as f:
        f.write("def test_a(live_fix):\n    pass\n")


def send(p, obj):
    body = json.dumps(obj).encode()
    p.stdin.write(b"Content-Length: %d\r\n\r\n" % len(body) + body)
    p.stdin.flush()


def recv(p):
    length = None
    while True:
        line = p.stdout.readline()
        if not line:
            raise EOFError
        line = line.strip()
        if not line:
            break
        if line.lower().startswith(b"content-length:"):
            length = int(line.split(b":")[1])
    return json.loads(p.stdout.read(length))


def lsp_symbols(root):
    env = dict(os.environ)
    env.pop("VIRTUAL_ENV", None)
    p = subprocess.Popen([BIN], stdin=subprocess.PIPE, stdout=subprocess.PIPE,
                         stderr=subprocess.DEVNULL, env=env)
    send(p, {"jsonrpc": "2.0", "id": 1, "method": "initialize",
             "params": {"processId": None, "rootUri": "file://" + root, "capabilities": {}}})
    while True:
        m = recv(p)
        if m.get("id") == 1:
            break
    send(p, {"jsonrpc": "2.0", "method": "initialized", "params": {}})
    # wait for the background scan
    while True:
        m = recv(p)
        if m.get("method") == "window/logMessage" and "Workspace scan complete" in m["params"]["message"]:
            break
    send(p, {"jsonrpc": "2.0", "id": 2, "method": "workspace/symbol", "params": {"query": ""}})
    while True:
        m = recv(p)
        if m.get("id") == 2:
            break
    p.kill()
    return sorted(s["name"] for s in (m.get("result") or []))


def main():
    tmp = tempfile.mkdtemp(prefix="hunt3_")
    root = os.path.realpath(os.path.join(tmp, "proj"))
    build(root)
    env = dict(os.environ)
    env.pop("VIRTUAL_ENV", None)

    server = lsp_symbols(root)
    print("language server, workspace/symbol '':", server)

    r = subprocess.run([BIN, "fixtures", "unused", root, "--format", "json"],
                       capture_output=True, text=True, env=env)
    print("CLI `fixtures unused --format json` exit=%d:" % r.returncode)
    print(r.stdout.strip())
    cli_unused = [e["fixture"] for e in json.loads(r.stdout)]

    r2 = subprocess.run([BIN, "fixtures", "list", root], capture_output=True, text=True,
                        env=dict(env, NO_COLOR="1"))
    print("CLI `fixtures list`:")
    print(r2.stdout.strip())

    ok = True
    if "legacy_fix" in server:
        print("(server indexed the excluded file too?)")
    if "legacy_fix" in cli_unused or "legacy_fix" in r2.stdout:
        print("FAIL: exclude = [\"legacy/**\"] is honoured by the server but the CLI indexed "
              "legacy/conftest.py (and `fixtures unused` exits 1 because of it)")
        ok = False
    sys.exit(0 if ok else 1)


if __name__ == "__main__":
    main()
