//! C13 hunt 3: "plus the modules those files pull in" - when both `helpers.py` and
//! `helpers/__init__.py` exist, Python imports the PACKAGE (FileFinder looks for a directory
//! with __init__.py before it tries the module suffixes). The scan follows the import to
//! `helpers.py` instead: it indexes a module pytest never loads and misses the one it does.
use pytest_language_server::FixtureDatabase;
use std::fs;
use std::path::Path;

fn w(root: &Path, rel: &str, content: &str) {
    let p = root.join(rel);
    fs::create_dir_all(p.parent().unwrap()).unwrap();
    fs::write(p, content).unwrap();
}

fn fx(name: &str) -> String {
    format!("import pytest\n\n@pytest.fixture\ndef {}():\n    return 1\n", name)
}

#[test]
fn import_resolves_to_package_before_module() {
    let tmp = tempfile::tempdir().unwrap();
    let root = tmp.path().canonicalize().unwrap();
    w(&root, "tests/__init__.py", "");
    w(&root, "tests/conftest.py", "from .helpers import *\n");
    w(&root, "tests/helpers.py", &fx("from_shadowed_module")); // never imported by Python
    w(&root, "tests/helpers/__init__.py", &fx("from_package")); // what Python imports
    w(&root, "tests/test_a.py", "def test_a(from_package):\n    pass\n");

    let db = FixtureDatabase::new();
    db.scan_workspace(&root);

    let mut names: Vec<String> = db.definitions.iter().map(|e| e.key().clone()).collect();
    names.sort();
    println!("indexed fixtures: {:?}", names);
    let available: Vec<String> = db
        .get_available_fixtures(&root.join("tests/test_a.py"))
        .into_iter()
        .map(|d| d.name)
        .collect();
    println!("available in tests/test_a.py: {:?}", available);

    assert!(
        db.definitions.contains_key("from_package"),
        "tests/helpers/__init__.py is the module `from .helpers import *` pulls in"
    );
    assert!(
        !db.definitions.contains_key("from_shadowed_module"),
        "tests/helpers.py is shadowed by the package and is not pulled in by anything"
    );
}
