//! C13 hunt 5: the scan decides what a virtualenv is by NAME only. Any root-level entry
//! called `.venv`, `venv` or `env` - a directory of environment configs, or a plain file -
//! is taken for the project's virtualenv; nothing is found in it, and the scan returns
//! without ever consulting $VIRTUAL_ENV. pytest's own fixtures and every installed plugin
//! silently disappear from the index.
use pytest_language_server::FixtureDatabase;
use std::fs;
use std::path::Path;

fn w(root: &Path, rel: &str, content: &str) {
    let p = root.join(rel);
    fs::create_dir_all(p.parent().unwrap()).unwrap();
    fs::write(p, content).unwrap();
}

#[test]
fn a_directory_called_env_is_not_necessarily_a_virtualenv() {
    let tmp = tempfile::tempdir().unwrap();
    let base = tmp.path().canonicalize().unwrap();

    // The active virtualenv, outside the workspace (poetry, pipenv, virtualenvwrapper, ...)
    let venv = base.join("virtualenvs/proj-abc123");
    w(&venv, "pyvenv.cfg", "home = /usr/bin\n");
    w(
        &venv,
        "lib/python3.12/site-packages/_pytest/tmpdir.py",
        "import pytest\n\n@pytest.fixture\ndef tmp_path():\n    return 1\n",
    );
    std::env::set_var("VIRTUAL_ENV", &venv);

    let mut results = Vec::new();
    for (label, extra) in [
        ("control: no env entry", None),
        ("env/ holds config files", Some("env/dev.yaml")),
        ("venv is a plain file", Some("venv")),
    ] {
        let root = base.join(label.replace([' ', ':', '/'], "_"));
        w(&root, "tests/test_a.py", "def test_a(tmp_path):\n    pass\n");
        if let Some(e) = extra {
            w(&root, e, "x: 1\n");
        }
        let db = FixtureDatabase::new();
        db.scan_workspace(&root);
        let found = db.definitions.contains_key("tmp_path");
        println!("{:28} tmp_path (from $VIRTUAL_ENV) indexed = {}", label, found);
        results.push((label, found));
    }
    for (label, found) in results {
        assert!(found, "third-party fixtures lost for workspace: {}", label);
    }
}
