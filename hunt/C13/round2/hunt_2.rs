//! C13 hunt 2: a conftest.py / test file that uses syntax legal since Python 3.12 (PEP 701
//! f-strings), 3.13 (PEP 696 type parameter defaults) or 3.14 (PEP 758, PEP 750) is dropped
//! from the index wholesale: rustpython-parser 0.4 rejects it, and the scan records nothing
//! for a file that does not parse.
use pytest_language_server::FixtureDatabase;
use std::fs;

fn indexed(snippet: &str) -> bool {
    let tmp = tempfile::tempdir().unwrap();
    let root = tmp.path().canonicalize().unwrap();
    let content = format!(
        "import pytest\n\n@pytest.fixture\ndef db_url():\n    return 'sqlite://'\n\n{}",
        snippet
    );
    fs::write(root.join("conftest.py"), content).unwrap();
    fs::write(root.join("test_a.py"), "def test_a(db_url):\n    pass\n").unwrap();
    let db = FixtureDatabase::new();
    db.scan_workspace(&root);
    db.definitions.contains_key("db_url")
}

#[test]
fn conftest_with_python_312_syntax_is_indexed() {
    let cases = [
        ("control (3.11 syntax)", "CFG = {'a': 1}\nMSG = f\"{CFG['a']}\"\n"),
        ("PEP 701 same quotes (3.12)", "CFG = {'a': 1}\nMSG = f\"{CFG[\"a\"]}\"\n"),
        ("PEP 701 multi-line field (3.12)", "MSG = f\"{\n    1 + 1\n}\"\n"),
        ("PEP 696 type param default (3.13)", "def ident[T = int](x: T) -> T:\n    return x\n"),
        ("PEP 758 except without parens (3.14)", "try:\n    pass\nexcept ValueError, TypeError:\n    pass\n"),
    ];
    let mut failed = Vec::new();
    for (name, snippet) in cases {
        let ok = indexed(snippet);
        println!("{:40} conftest.py indexed = {}", name, ok);
        if !ok {
            failed.push(name);
        }
    }
    assert!(
        failed.is_empty(),
        "conftest.py with legal Python was not indexed: {:?}",
        failed
    );
}
