//! C13 hunt 1: a directory (or file) below the workspace root whose NAME merely contains the
//! substring "site-packages" is treated as if it were a site-packages directory: every
//! fixture in it is classified third-party, which makes it visible from every file of the
//! workspace and hides it from `fixtures unused`.
use pytest_language_server::FixtureDatabase;
use std::fs;
use std::path::Path;

fn w(root: &Path, rel: &str, content: &str) {
    let p = root.join(rel);
    fs::create_dir_all(p.parent().unwrap()).unwrap();
    fs::write(p, content).unwrap();
}

#[test]
fn directory_named_like_site_packages_is_project_code() {
    let tmp = tempfile::tempdir().unwrap();
    let root = tmp.path().canonicalize().unwrap();
    // An ordinary project directory; NOT the ignored name "site-packages".
    w(
        &root,
        "tools/site-packages-audit/conftest.py",
        "import pytest\n\n@pytest.fixture\ndef audit_fix():\n    return 1\n",
    );
    w(
        &root,
        "tools/site-packages-audit/test_audit.py",
        "def test_audit():\n    pass\n",
    );
    // A sibling directory: pytest does not offer audit_fix here.
    w(&root, "other/test_x.py", "def test_x():\n    pass\n");

    let db = FixtureDatabase::new();
    db.scan_workspace(&root);

    let defs = db.definitions.get("audit_fix").expect("conftest.py is indexed");
    let def = defs[0].clone();
    drop(defs);
    let available: Vec<String> = db
        .get_available_fixtures(&root.join("other/test_x.py"))
        .into_iter()
        .map(|d| d.name)
        .collect();
    let unused: Vec<String> = db.get_unused_fixtures().into_iter().map(|(_, n)| n).collect();

    println!("is_third_party = {}", def.is_third_party);
    println!("available in other/test_x.py = {:?}", available);
    println!("unused = {:?}", unused);

    assert!(
        !def.is_third_party,
        "a project conftest.py in tools/site-packages-audit/ must not be third-party"
    );
    assert!(
        !available.contains(&"audit_fix".to_string()),
        "audit_fix is scoped to tools/site-packages-audit/, not visible in other/"
    );
    assert!(
        unused.contains(&"audit_fix".to_string()),
        "audit_fix is requested by nobody and must be reported as unused"
    );
}
