//! C13 hunt 4: an exclude pattern that names a DIRECTORY ("legacy", "old/") matches the
//! directory entry itself, but the walk neither prunes it nor tests the files below it
//! against their ancestors, so everything under the directory is still indexed. The setting
//! is documented as "Glob patterns for files/directories to exclude from scanning", and the
//! project's own config tests use `exclude = ["build", ..., ".tox"]` / `"dist"`.
use pytest_language_server::{Config, FixtureDatabase};
use std::fs;
use std::path::Path;

fn w(root: &Path, rel: &str, content: &str) {
    let p = root.join(rel);
    fs::create_dir_all(p.parent().unwrap()).unwrap();
    fs::write(p, content).unwrap();
}

fn fx(name: &str) -> String {
    format!("import pytest\n\n@pytest.fixture\ndef {}():\n    return 1\n", name)
}

#[test]
fn excluding_a_directory_excludes_what_is_in_it() {
    let tmp = tempfile::tempdir().unwrap();
    let root = tmp.path().canonicalize().unwrap();
    w(
        &root,
        "pyproject.toml",
        "[tool.pytest-language-server]\nexclude = [\"legacy\", \"old/\", \"globbed/**\"]\n",
    );
    w(&root, "legacy/test_a.py", &fx("legacy_fix"));
    w(&root, "legacy/sub/conftest.py", &fx("legacy_sub_fix"));
    w(&root, "old/test_a.py", &fx("old_fix"));
    w(&root, "globbed/test_a.py", &fx("globbed_fix"));
    w(&root, "tests/test_a.py", &fx("kept_fix"));

    let cfg = Config::load(&root);
    assert_eq!(cfg.exclude.len(), 3);
    // The configured pattern does match the directory...
    assert!(cfg.should_exclude(Path::new("legacy")));

    let db = FixtureDatabase::new();
    db.scan_workspace_with_excludes(&root, &cfg.exclude);
    let mut names: Vec<String> = db.definitions.iter().map(|e| e.key().clone()).collect();
    names.sort();
    println!("indexed fixtures: {:?}", names);

    assert!(db.definitions.contains_key("kept_fix"));
    assert!(!db.definitions.contains_key("globbed_fix"));
    // ... but its contents are indexed all the same
    assert!(
        !db.definitions.contains_key("legacy_fix") && !db.definitions.contains_key("legacy_sub_fix"),
        "exclude = [\"legacy\"] must keep legacy/ out of the index"
    );
    assert!(
        !db.definitions.contains_key("old_fix"),
        "exclude = [\"old/\"] must keep old/ out of the index"
    );
}
