// hunt_5: fault isolation. One entry named like a test file that is not a regular file
// (a FIFO; pytest itself only collects `is_file()` entries, so it is not one of pytest's
// files) makes the whole scan block forever: the walker pushes every entry whose NAME
// matches, without checking that it is a regular file, and phase 2 then calls
// `std::fs::read_to_string` on it, which blocks in open(2) on a FIFO with no writer.
// Phases 3 and 4 (venv plugins, imported modules) are never reached, the server never logs
// "Workspace scan complete", and `fixtures list|unused` hang.
use pytest_language_server::FixtureDatabase;
use std::fs;
use std::process::Command;
use std::sync::mpsc;
use std::time::Duration;

#[test]
fn scan_terminates_with_a_fifo_named_like_a_test_file() {
    let tmp = tempfile::tempdir().unwrap();
    let root = tmp.path().join("proj");
    fs::create_dir_all(root.join("tests")).unwrap();
    fs::write(
        root.join("conftest.py"),
        "import pytest\nfrom fixture_lib import *\n",
    )
    .unwrap();
    fs::write(
        root.join("fixture_lib.py"),
        "import pytest\n\n@pytest.fixture\ndef lib_fix():\n    return 1\n",
    )
    .unwrap();
    fs::write(root.join("tests/test_a.py"), "def test_a(lib_fix):\n    pass\n").unwrap();
    let fifo = root.join("tests/test_pipe.py");
    assert!(Command::new("mkfifo").arg(&fifo).status().unwrap().success());

    let (tx, rx) = mpsc::channel();
    let root2 = root.clone();
    std::thread::spawn(move || {
        let db = FixtureDatabase::new();
        db.scan_workspace(&root2);
        let _ = tx.send(db.definitions.contains_key("lib_fix"));
    });

    let res = rx.recv_timeout(Duration::from_secs(10));
    // unblock the stuck reader so the test process can exit cleanly
    if res.is_err() {
        let _ = fs::OpenOptions::new().write(true).open(&fifo);
    }
    match res {
        Ok(found) => assert!(found, "lib_fix (module pulled in by conftest.py) not indexed"),
        Err(_) => panic!(
            "scan_workspace did not return within 10 s: blocked reading the FIFO tests/test_pipe.py; \
             the rest of the workspace (imported module fixture_lib.py, venv plugins) is never indexed"
        ),
    }
}
