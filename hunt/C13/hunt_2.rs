// hunt_2: an exclude pattern that matches a DIRECTORY does not exclude the files in it.
//
// README: "exclude: Glob patterns for files/directories to exclude from scanning";
// the project's own config test uses `exclude = ["build", "dist/**", ".tox"]`.
// The pattern is matched against each walked entry separately and a matching directory
// entry is merely `continue`d, not pruned, so `exclude = ["legacy"]` (or "tests/legacy",
// or "*/legacy") excludes nothing at all.
use pytest_language_server::{Config, FixtureDatabase};
use std::collections::BTreeSet;
use std::fs;
use std::path::Path;

fn indexed_files(db: &FixtureDatabase, root: &Path) -> BTreeSet<String> {
    let root = root.canonicalize().unwrap();
    db.file_cache
        .iter()
        .map(|e| {
            e.key()
                .strip_prefix(&root)
                .unwrap_or(e.key())
                .to_string_lossy()
                .to_string()
        })
        .collect()
}

fn build(root: &Path, exclude_toml: &str) {
    fs::create_dir_all(root.join("legacy/deep")).unwrap();
    fs::create_dir_all(root.join("tests")).unwrap();
    fs::write(
        root.join("pyproject.toml"),
        format!("[tool.pytest-language-server]\nexclude = {}\n", exclude_toml),
    )
    .unwrap();
    fs::write(
        root.join("legacy/conftest.py"),
        "import pytest\n\n@pytest.fixture\ndef legacy_fix():\n    return 1\n",
    )
    .unwrap();
    fs::write(root.join("legacy/deep/test_old.py"), "def test_old(legacy_fix):\n    pass\n").unwrap();
    fs::write(root.join("tests/test_new.py"), "def test_new():\n    pass\n").unwrap();
}

fn scan_with_config(root: &Path) -> FixtureDatabase {
    // exactly what the server does in `initialize` (src/main.rs:48-69)
    let config = Config::load(root);
    assert_eq!(config.exclude.len(), 1, "pattern must have been accepted");
    let db = FixtureDatabase::new();
    db.scan_workspace_with_excludes(root, &config.exclude);
    db
}

#[test]
fn directory_pattern_excludes_directory_contents() {
    let tmp = tempfile::tempdir().unwrap();
    let root = tmp.path().join("proj");
    build(&root, r#"["legacy"]"#);

    // the pattern does match the directory, the Config API agrees it is excluded
    let config = Config::load(&root);
    assert!(config.should_exclude(Path::new("legacy")));

    let db = scan_with_config(&root);
    let files = indexed_files(&db, &root);
    println!("indexed with exclude=[\"legacy\"]: {:?}", files);
    assert!(
        !files.iter().any(|f| f.starts_with("legacy")),
        "files inside the excluded directory `legacy` were indexed: {:?}",
        files
    );
    assert!(!db.definitions.contains_key("legacy_fix"));
}

#[test]
fn control_glob_with_double_star_works() {
    // control: the same tree with "legacy/**" is excluded as expected
    let tmp = tempfile::tempdir().unwrap();
    let root = tmp.path().join("proj");
    build(&root, r#"["legacy/**"]"#);
    let db = scan_with_config(&root);
    let files = indexed_files(&db, &root);
    println!("indexed with exclude=[\"legacy/**\"]: {:?}", files);
    assert!(!files.iter().any(|f| f.starts_with("legacy")));
    assert!(files.contains("tests/test_new.py"));
}
