//! C19 hunt 4: scope-mismatch is evaluated for only ONE definition per fixture name per file
//! (the first one registered, `definitions.iter().find(..)` in
//! FixtureDatabase::detect_scope_mismatches_in_file), although a file can legally hold several
//! definitions of the same name (one per test class; or a redefinition, where the LAST one is
//! the live one -- which is what find_closest_definition itself picks).
//! publish_diagnostics_for_file publishes exactly what this function returns.

use pytest_language_server::FixtureDatabase;
use std::path::PathBuf;

fn lines_of_mismatches(db: &FixtureDatabase, p: &PathBuf) -> Vec<(String, usize)> {
    let mut v: Vec<(String, usize)> = db
        .detect_scope_mismatches_in_file(p)
        .into_iter()
        .map(|m| (m.fixture.name.clone(), m.fixture.line))
        .collect();
    v.sort();
    v
}

/// Two test classes, each with its own `resource` fixture (both are live in pytest).
/// Only the second one is broken (session-scoped, depends on a function-scoped fixture).
#[test]
fn same_name_in_two_classes_second_one_is_never_checked() {
    let db = FixtureDatabase::new();
    let p = PathBuf::from("/tmp/c19_hunt4/test_classes.py");
    let src = r#"import pytest

@pytest.fixture
def fn_dep():
    return 1

class TestA:
    @pytest.fixture
    def resource(self, fn_dep):
        return fn_dep

class TestB:
    @pytest.fixture(scope="session")
    def resource(self, fn_dep):
        return fn_dep
"#;
    db.analyze_file(p.clone(), src);
    let got = lines_of_mismatches(&db, &p);
    // line 14 = `def resource` inside TestB
    assert_eq!(
        got,
        vec![("resource".to_string(), 14)],
        "session-scoped TestB.resource depends on function-scoped fn_dep: must be reported"
    );
}

/// A redefinition: the last definition is the one pytest (and find_closest_definition) uses.
/// The live one is broken, the dead one is fine -> nothing is reported.
#[test]
fn redefinition_live_definition_is_not_checked() {
    let db = FixtureDatabase::new();
    let p = PathBuf::from("/tmp/c19_hunt4/test_redef.py");
    let src = r#"import pytest

@pytest.fixture
def fn_dep():
    return 1

@pytest.fixture
def res(fn_dep):
    return 1

@pytest.fixture(scope="session")
def res(fn_dep):
    return 2
"#;
    db.analyze_file(p.clone(), src);
    let got = lines_of_mismatches(&db, &p);
    assert_eq!(got, vec![("res".to_string(), 12)]);
}

/// History form of the same defect ("removing the cause clears the diagnostic on the next
/// change" / a new cause must raise it): the user appends a broken class to a clean file;
/// the change produces no diagnostic.
#[test]
fn edit_that_adds_the_cause_raises_nothing() {
    let db = FixtureDatabase::new();
    let p = PathBuf::from("/tmp/c19_hunt4/test_hist.py");
    let v1 = r#"import pytest

@pytest.fixture
def fn_dep():
    return 1

class TestA:
    @pytest.fixture(scope="session")
    def resource(self):
        return 0
"#;
    db.analyze_file(p.clone(), v1);
    assert!(lines_of_mismatches(&db, &p).is_empty());
    let v2 = format!(
        "{}{}",
        v1,
        r#"
class TestB:
    @pytest.fixture(scope="session")
    def resource(self, fn_dep):
        return fn_dep
"#
    );
    db.analyze_file(p.clone(), &v2);
    assert_eq!(lines_of_mismatches(&db, &p), vec![("resource".to_string(), 14)]);
}
