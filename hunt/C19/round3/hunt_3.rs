//! C19 hunt 3: a fixture cycle that spans two files is reported in only one of them, and
//! which one is decided by the alphabetical order of fixture names - including the names of
//! unrelated fixtures in other files. A document whose fixture is on a cycle can therefore
//! have no circular-dependency diagnostic at all, and gains / loses it without being edited.
use pytest_language_server::FixtureDatabase;

#[test]
fn cross_file_cycle_is_reported_in_one_file_only() {
    let dir = tempfile::tempdir().unwrap();
    let root = dir.path().canonicalize().unwrap();
    let conftest = root.join("conftest.py");
    let fixtures = root.join("fixtures.py");
    let other = root.join("test_other.py");

    let conftest_text = "import pytest\nfrom fixtures import *\n\n@pytest.fixture\ndef alpha(beta):\n    return 1\n";
    let fixtures_text = "import pytest\n\n@pytest.fixture\ndef beta(alpha):\n    return 1\n";
    std::fs::write(&conftest, conftest_text).unwrap();
    std::fs::write(&fixtures, fixtures_text).unwrap();

    let db = FixtureDatabase::new();
    db.analyze_file(fixtures.clone(), fixtures_text);
    db.analyze_file(conftest.clone(), conftest_text);

    let in_conftest = db.detect_fixture_cycles_in_file(&conftest).len();
    let in_fixtures = db.detect_fixture_cycles_in_file(&fixtures).len();
    println!("before: conftest.py {in_conftest} cycle(s), fixtures.py {in_fixtures} cycle(s)");

    // an unrelated file: a fixture whose name sorts before `alpha` and that requests `beta`
    db.analyze_file(other.clone(), "import pytest\n\n@pytest.fixture\ndef Zed(beta):\n    return 1\n");
    // the user now retypes conftest.py without changing it (did_change, same text)
    db.analyze_file(conftest.clone(), conftest_text);
    let in_conftest_after = db.detect_fixture_cycles_in_file(&conftest).len();
    let in_fixtures_after = db.detect_fixture_cycles_in_file(&fixtures).len();
    println!("after : conftest.py {in_conftest_after} cycle(s), fixtures.py {in_fixtures_after} cycle(s)");

    // alpha (conftest.py) and beta (fixtures.py) are on the same cycle all along
    assert!(in_conftest >= 1 && in_fixtures >= 1, "both documents define a fixture of the cycle alpha -> beta -> alpha");
    assert_eq!(in_conftest, in_conftest_after, "conftest.py was not edited and alpha is still on the cycle");
}
