//! C19 hunt 5: statements inside a `try` block are never looked at by the undeclared-fixture
//! scan (the collector of local variables does descend into `try`, the visitor does not).
use pytest_language_server::FixtureDatabase;
use std::path::PathBuf;

fn run(body: &str) -> Vec<(String, usize)> {
    let dir = tempfile::tempdir().unwrap();
    let root = dir.path().canonicalize().unwrap();
    let db = FixtureDatabase::new();
    db.analyze_file(
        root.join("conftest.py"),
        "import pytest\n\n@pytest.fixture\ndef db():\n    return 1\n",
    );
    let path: PathBuf = root.join("test_try.py");
    db.analyze_file(path.clone(), body);
    db.get_undeclared_fixtures(&path).into_iter().map(|u| (u.name, u.line)).collect()
}

#[test]
fn use_inside_try_finally() {
    let plain = run("def test_x():\n    db.execute('x')\n");
    let with_ = run("def test_x():\n    with open('f'):\n        db.execute('x')\n");
    let tried = run("def test_x():\n    try:\n        db.execute('x')\n    finally:\n        print('done')\n");
    let handler = run("def test_x():\n    try:\n        pass\n    except Exception:\n        db.rollback()\n");
    println!("plain: {plain:?}\nwith: {with_:?}\ntry body: {tried:?}\nexcept body: {handler:?}");
    assert_eq!(plain, vec![("db".to_string(), 2)]);
    assert_eq!(with_, vec![("db".to_string(), 3)]);
    assert_eq!(tried, vec![("db".to_string(), 3)], "wrapping the statement in try/finally must not hide the finding");
    assert_eq!(handler, vec![("db".to_string(), 5)]);
}
