//! C19 hunt 1: whether an undeclared use of a same-file fixture is reported depends on
//! whether the fixture is defined above or below the function that uses it.
use pytest_language_server::FixtureDatabase;
use std::path::PathBuf;

const FIXTURE: &str = "@pytest.fixture\ndef local_fx():\n    return 1\n";
const TEST: &str = "def test_x():\n    print(local_fx)\n";

fn findings(db: &FixtureDatabase, path: &PathBuf) -> Vec<String> {
    let mut names: Vec<String> = db
        .get_undeclared_fixtures(path)
        .into_iter()
        .map(|u| format!("{} in {}", u.name, u.function_name))
        .collect();
    names.sort();
    names
}

#[test]
fn undeclared_use_of_a_fixture_defined_further_down_the_file() {
    let dir = tempfile::tempdir().unwrap();
    let path = dir.path().canonicalize().unwrap().join("test_order.py");

    // the same two top-level statements, in the two possible orders
    let fixture_first = format!("import pytest\n\n{FIXTURE}\n{TEST}");
    let test_first = format!("import pytest\n\n{TEST}\n{FIXTURE}");

    let db = FixtureDatabase::new();
    db.analyze_file(path.clone(), &fixture_first);
    let a = findings(&db, &path);
    db.analyze_file(path.clone(), &test_first);
    let b = findings(&db, &path);

    println!("fixture defined above the test: {a:?}");
    println!("fixture defined below the test: {b:?}");
    assert_eq!(a, vec!["local_fx in test_x".to_string()]);
    // Python binds module-level names before any test runs: the order of the two
    // definitions changes nothing, `local_fx` in the body is the fixture function either way
    assert_eq!(a, b, "the finding must not depend on the order of the definitions");
}

#[test]
fn fixture_body_using_a_later_fixture_of_the_same_conftest() {
    let dir = tempfile::tempdir().unwrap();
    let path = dir.path().canonicalize().unwrap().join("conftest.py");
    let text = "import pytest\n\n@pytest.fixture\ndef first():\n    return second + 1\n\n@pytest.fixture\ndef second():\n    return first + 1\n";
    let db = FixtureDatabase::new();
    db.analyze_file(path.clone(), text);
    let got = findings(&db, &path);
    println!("{got:?}");
    // both bodies use the other fixture without declaring it
    assert_eq!(got, vec!["first in second".to_string(), "second in first".to_string()]);
}
