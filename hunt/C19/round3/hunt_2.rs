//! C19 hunt 2: module-level names that are not fixtures are reported as undeclared fixtures
//! when they are bound by `import a.b` (binds `a`) or inside a module-level try / if block.
use pytest_language_server::FixtureDatabase;
use std::path::PathBuf;

fn setup() -> (tempfile::TempDir, FixtureDatabase, PathBuf) {
    let dir = tempfile::tempdir().unwrap();
    let root = dir.path().canonicalize().unwrap();
    let db = FixtureDatabase::new();
    db.analyze_file(
        root.join("conftest.py"),
        "import pytest\n\n@pytest.fixture\ndef app():\n    return 1\n\n@pytest.fixture\ndef yaml():\n    return 1\n",
    );
    (dir, db, root.join("test_mod.py"))
}

fn names(db: &FixtureDatabase, path: &PathBuf) -> Vec<(String, usize)> {
    db.get_undeclared_fixtures(path).into_iter().map(|u| (u.name, u.line)).collect()
}

#[test]
fn control_plain_import_is_not_flagged() {
    let (_d, db, path) = setup();
    db.analyze_file(path.clone(), "import app\n\ndef test_x():\n    assert app.models.User\n");
    assert_eq!(names(&db, &path), vec![]);
}

#[test]
fn dotted_import_binds_the_top_level_package() {
    let (_d, db, path) = setup();
    // `import app.models` binds the name `app` in the module namespace
    db.analyze_file(path.clone(), "import app.models\n\ndef test_x():\n    assert app.models.User\n");
    let got = names(&db, &path);
    println!("{got:?}");
    assert_eq!(got, vec![], "`app` is the imported package here, not the fixture");
}

#[test]
fn optional_import_in_a_try_block() {
    let (_d, db, path) = setup();
    db.analyze_file(
        path.clone(),
        "try:\n    import yaml\nexcept ImportError:\n    yaml = None\n\ndef test_x():\n    assert yaml.safe_load('a: 1')\n",
    );
    let got = names(&db, &path);
    println!("{got:?}");
    assert_eq!(got, vec![], "`yaml` is a module-level name of this file");
}

#[test]
fn name_bound_in_a_module_level_if() {
    let (_d, db, path) = setup();
    db.analyze_file(
        path.clone(),
        "import sys\nif sys.version_info >= (3, 11):\n    import tomllib as yaml\nelse:\n    import tomli as yaml\n\ndef test_x():\n    assert yaml.loads('a = 1')\n",
    );
    let got = names(&db, &path);
    println!("{got:?}");
    assert_eq!(got, vec![], "`yaml` is a module-level name of this file");
}
