import json, os, subprocess, sys, time, threading, queue, pathlib

BIN = os.environ.get("PLS_BIN") or os.path.join(os.path.dirname(os.path.abspath(__file__)), "target", "debug", "pytest-language-server")

class Server:
    def __init__(self, env=None):
        e = dict(os.environ)
        e.pop("VIRTUAL_ENV", None)
        if env: e.update(env)
        self.p = subprocess.Popen([BIN], stdin=subprocess.PIPE, stdout=subprocess.PIPE, stderr=subprocess.PIPE, env=e)
        self.q = queue.Queue()
        self.id = 0
        self.diags = {}   # uri -> list of published lists
        self.log = []
        threading.Thread(target=self._reader, daemon=True).start()
        threading.Thread(target=self._err, daemon=True).start()
        self.stderr = []
    def _err(self):
        for l in self.p.stderr:
            self.stderr.append(l.decode(errors="replace"))
    def _reader(self):
        f = self.p.stdout
        while True:
            hdr = {}
            while True:
                line = f.readline()
                if not line:
                    self.q.put(None); return
                line = line.strip()
                if not line: break
                k, v = line.split(b":", 1)
                hdr[k.strip().lower()] = v.strip()
            n = int(hdr[b"content-length"])
            body = f.read(n)
            msg = json.loads(body)
            if "method" in msg and "id" in msg:
                # server->client request: answer null
                self._send({"jsonrpc": "2.0", "id": msg["id"], "result": None})
            self.q.put(msg)
    def _send(self, obj):
        b = json.dumps(obj).encode()
        self.p.stdin.write(b"Content-Length: %d\r\n\r\n" % len(b) + b)
        self.p.stdin.flush()
    def request(self, method, params, timeout=20):
        self.id += 1
        i = self.id
        self._send({"jsonrpc": "2.0", "id": i, "method": method, "params": params})
        end = time.time() + timeout
        while True:
            msg = self.q.get(timeout=max(0.01, end - time.time()))
            if msg is None: raise RuntimeError("server died")
            self._note(msg)
            if msg.get("id") == i and "method" not in msg:
                return msg
    def notify(self, method, params):
        self._send({"jsonrpc": "2.0", "method": method, "params": params})
    def _note(self, msg):
        if msg.get("method") == "textDocument/publishDiagnostics":
            self.diags.setdefault(msg["params"]["uri"], []).append(msg["params"]["diagnostics"])
        elif msg.get("method") == "window/logMessage":
            self.log.append(msg["params"]["message"])
    def pump(self, secs=0.5):
        end = time.time() + secs
        while time.time() < end:
            try:
                msg = self.q.get(timeout=max(0.01, end - time.time()))
            except queue.Empty:
                break
            if msg is None: raise RuntimeError("server died")
            self._note(msg)
    def wait_scan(self, timeout=30):
        end = time.time() + timeout
        while time.time() < end:
            self.pump(0.1)
            if any("scan complete" in m for m in self.log): return
        raise RuntimeError("scan did not complete")
    def init(self, root, wait=True, **extra):
        params = {"processId": None, "rootUri": uri(root), "capabilities": {}, "workspaceFolders": [{"uri": uri(root), "name": "w"}]}
        params.update(extra)
        r = self.request("initialize", params)
        self.notify("initialized", {})
        if wait: self.wait_scan()
        return r
    def open(self, path, text, u=None):
        self.notify("textDocument/didOpen", {"textDocument": {"uri": u or uri(path), "languageId": "python", "version": 1, "text": text}})
    def change(self, path, text, version=2, u=None):
        self.notify("textDocument/didChange", {"textDocument": {"uri": u or uri(path), "version": version}, "contentChanges": [{"text": text}]})
    def close(self, path, u=None):
        self.notify("textDocument/didClose", {"textDocument": {"uri": u or uri(path)}})
    def sync(self):
        # a request acts as a barrier (handled after earlier notifications are started)
        self.request("workspace/symbol", {"query": "zzzz_nothing"})
        self.pump(0.3)
    def last(self, path, u=None):
        l = self.diags.get(u or uri(path))
        return None if l is None else l[-1]
    def stop(self):
        try:
            self.request("shutdown", None, timeout=5)
            self.notify("exit", None)
        except Exception: pass
        try: self.p.wait(timeout=3)
        except Exception: self.p.kill()

def uri(p):
    return pathlib.Path(p).as_uri()

def brief(diags):
    if diags is None: return None
    return sorted((d["code"], d["range"]["start"]["line"], d["range"]["start"]["character"], d["message"]) for d in diags)

def write(root, rel, text):
    p = os.path.join(root, rel)
    os.makedirs(os.path.dirname(p), exist_ok=True)
    with open(p, "w", newline="") as f: f.write(text)
    return p
