#!/usr/bin/env python3
"""C19 hunts 1, 2, 3, 5 once more, end to end: the real binary over stdio, didOpen/didChange,
and the textDocument/publishDiagnostics the client last received. Exit status = number of
violations observed."""
import os, sys, tempfile
sys.path.insert(0, os.path.dirname(os.path.abspath(__file__)))
from hunt_lsp import Server, write, brief

root = os.path.realpath(tempfile.mkdtemp(prefix="h3c19_e2e_"))
write(root, "conftest.py", "import pytest\n\n@pytest.fixture\ndef db():\n    return 1\n\n@pytest.fixture\ndef app():\n    return 1\n")
t = write(root, "test_a.py", "")
cyc_conf_text = "import pytest\nfrom fixtures import *\n\n@pytest.fixture\ndef alpha(beta):\n    return 1\n"
cyc_fx_text = "import pytest\n\n@pytest.fixture\ndef beta(alpha):\n    return 1\n"
cyc_conf = write(root, "cyc/conftest.py", cyc_conf_text)
cyc_fx = write(root, "cyc/fixtures.py", cyc_fx_text)
cyc_other = write(root, "cyc/test_other.py", "")
s = Server(); s.init(root)
bad = 0
v = [1]
def publish(path, text):
    v[0] += 1
    if v[0] == 2 or path not in opened: s.open(path, text); opened.add(path)
    else: s.change(path, text, v[0])
    s.sync()
    return brief(s.last(path))
opened = set()
def codes(d): return sorted((c, l) for (c, l, _, _) in d)

print("== hunt 1: order of definitions")
FX = "@pytest.fixture\ndef local_fx():\n    return 1\n"; TS = "def test_x():\n    print(local_fx)\n"
a = publish(t, "import pytest\n\n" + FX + "\n" + TS); print("  fixture above test:", a)
b = publish(t, "import pytest\n\n" + TS + "\n" + FX); print("  fixture below test:", b)
if [m for (_, _, _, m) in a] != [m for (_, _, _, m) in b]: bad += 1; print("  VIOLATION")

print("== hunt 2: module-level names that are not fixtures")
for label, text in [
    ("import app        ", "import app\n\ndef test_x():\n    assert app.models.User\n"),
    ("import app.models ", "import app.models\n\ndef test_x():\n    assert app.models.User\n"),
    ("try: import db    ", "try:\n    import db\nexcept ImportError:\n    db = None\n\ndef test_x():\n    assert db.connect\n"),
]:
    d = publish(t, text); print("  " + label, d)
    if d: bad += 1; print("  VIOLATION")

print("== hunt 5: try block")
p = publish(t, "def test_x():\n    db.execute('x')\n"); print("  plain      :", p)
q = publish(t, "def test_x():\n    try:\n        db.execute('x')\n    finally:\n        pass\n"); print("  try/finally:", q)
if len(p) != len(q): bad += 1; print("  VIOLATION")

print("== hunt 3: cycle alpha (cyc/conftest.py) -> beta (cyc/fixtures.py) -> alpha")
c1 = publish(cyc_conf, cyc_conf_text); f1 = publish(cyc_fx, cyc_fx_text)
print("  conftest.py:", c1); print("  fixtures.py:", f1)
publish(cyc_other, "import pytest\n\n@pytest.fixture\ndef Zed(beta):\n    return 1\n")
c2 = publish(cyc_conf, cyc_conf_text); f2 = publish(cyc_fx, cyc_fx_text)
print("  after an unrelated fixture Zed(beta) appeared in test_other.py, same texts again:")
print("  conftest.py:", c2); print("  fixtures.py:", f2)
if not (c1 and f1) or c1 != c2: bad += 1; print("  VIOLATION")
s.stop()
print("violations:", bad)
sys.exit(bad)
