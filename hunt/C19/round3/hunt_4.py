#!/usr/bin/env python3
"""C19 hunt 4: pyproject.toml is read once, in `initialize`. A code that the user disables
(or re-enables) while the server runs has no effect on the diagnostics of later edits.

Drives the real binary over stdio (build it first: cargo build --offline).
Exit status 1 = violation observed."""
import os, sys, tempfile
sys.path.insert(0, os.path.dirname(os.path.abspath(__file__)))
from hunt_lsp import Server, write, brief, uri

DISABLE = '[tool.pytest-language-server]\ndisabled_diagnostics = ["undeclared-fixture"]\n'
TEST = "def test_x():\n    print(db)\n"
bad = 0

def scenario(initial, later, label):
    global bad
    root = os.path.realpath(tempfile.mkdtemp(prefix="h3c19_cfg_"))
    write(root, "conftest.py", "import pytest\n\n@pytest.fixture\ndef db():\n    return 1\n")
    pp = write(root, "pyproject.toml", initial)
    t = write(root, "test_a.py", TEST)
    s = Server(); s.init(root)
    s.open(t, TEST); s.sync()
    first = brief(s.last(t))
    # the user edits pyproject.toml in the editor and saves it; a well-behaved client tells the server
    write(root, "pyproject.toml", later)
    s.open(pp, later)
    s.notify("textDocument/didSave", {"textDocument": {"uri": uri(pp)}, "text": later})
    s.notify("workspace/didChangeWatchedFiles", {"changes": [{"uri": uri(pp), "type": 2}]})
    s.notify("workspace/didChangeConfiguration", {"settings": {}})
    s.sync()
    # ... and goes on editing the test
    s.change(t, TEST + "\n", 2); s.sync()
    second = brief(s.last(t))
    s.stop()
    # reference: what a server started on the final pyproject.toml publishes for the same text
    s2 = Server(); s2.init(root)
    s2.open(t, TEST + "\n"); s2.sync()
    want = brief(s2.last(t))
    s2.stop()
    print(f"--- {label}")
    print("  diagnostics before the pyproject.toml edit:", first)
    print("  diagnostics after the edit + a change     :", second)
    print("  a fresh server on the same files publishes:", want)
    if second != want:
        bad += 1
        print("  VIOLATION: published diagnostics do not honour the pyproject.toml now on disk")

scenario("[project]\nname = 'x'\n", DISABLE, "user disables undeclared-fixture while the server runs")
scenario(DISABLE, "[project]\nname = 'x'\n", "user re-enables undeclared-fixture while the server runs")
sys.exit(1 if bad else 0)
