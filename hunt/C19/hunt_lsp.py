"""Minimal stdio LSP client for driving target/debug/pytest-language-server."""
import json, os, subprocess, threading, time, queue, pathlib

BIN = os.environ.get("PLS_BIN", str(pathlib.Path(__file__).resolve().parent / "target/debug/pytest-language-server"))

class Server:
    def __init__(self, root, wait_scan=True, env=None):
        e = dict(os.environ); e.setdefault("RUST_LOG", "warn")
        if env: e.update(env)
        self.p = subprocess.Popen([BIN], stdin=subprocess.PIPE, stdout=subprocess.PIPE, stderr=subprocess.DEVNULL, env=e)
        self.msgs = queue.Queue()
        self.diags = {}      # uri -> list of published lists (history)
        self.logs = []
        self.lock = threading.Lock()
        self.id = 0
        self.responses = {}
        threading.Thread(target=self._reader, daemon=True).start()
        self.root = str(root)
        r = self.request("initialize", {"processId": None, "rootUri": "file://" + self.root, "capabilities": {}})
        self.notify("initialized", {})
        if wait_scan:
            self.wait_log("Workspace scan complete")

    def _reader(self):
        f = self.p.stdout
        while True:
            hdr = b""
            while not hdr.endswith(b"\r\n\r\n"):
                c = f.read(1)
                if not c: return
                hdr += c
            n = int([l for l in hdr.decode().split("\r\n") if l.lower().startswith("content-length")][0].split(":")[1])
            body = json.loads(f.read(n))
            with self.lock:
                if body.get("method") == "textDocument/publishDiagnostics":
                    self.diags.setdefault(body["params"]["uri"], []).append(body["params"]["diagnostics"])
                elif body.get("method") == "window/logMessage":
                    self.logs.append(body["params"]["message"])
                elif "id" in body and "method" in body:
                    # server->client request: answer null
                    self._send({"jsonrpc": "2.0", "id": body["id"], "result": None})
                elif "id" in body:
                    self.responses[body["id"]] = body

    def _send(self, obj):
        b = json.dumps(obj).encode()
        self.p.stdin.write(b"Content-Length: %d\r\n\r\n" % len(b) + b); self.p.stdin.flush()

    def request(self, method, params, timeout=20):
        self.id += 1; i = self.id
        self._send({"jsonrpc": "2.0", "id": i, "method": method, "params": params})
        t = time.time()
        while time.time() - t < timeout:
            with self.lock:
                if i in self.responses: return self.responses.pop(i)
            time.sleep(0.005)
        raise TimeoutError(method)

    def notify(self, method, params):
        self._send({"jsonrpc": "2.0", "method": method, "params": params})

    def wait_log(self, text, timeout=60):
        t = time.time()
        while time.time() - t < timeout:
            with self.lock:
                if any(text in l for l in self.logs): return True
            time.sleep(0.01)
        raise TimeoutError("log: " + text)

    def uri(self, path): return "file://" + str(path)

    def _await_publish(self, uri, before, timeout=10):
        t = time.time()
        while time.time() - t < timeout:
            with self.lock:
                if len(self.diags.get(uri, [])) > before: 
                    return self.diags[uri][-1]
            time.sleep(0.005)
        return None

    def open(self, path, text, version=1):
        uri = self.uri(path)
        with self.lock: before = len(self.diags.get(uri, []))
        self.notify("textDocument/didOpen", {"textDocument": {"uri": uri, "languageId": "python", "version": version, "text": text}})
        return self._await_publish(uri, before)

    def change(self, path, text, version=2):
        uri = self.uri(path)
        with self.lock: before = len(self.diags.get(uri, []))
        self.notify("textDocument/didChange", {"textDocument": {"uri": uri, "version": version}, "contentChanges": [{"text": text}]})
        return self._await_publish(uri, before)

    def close(self, path):
        self.notify("textDocument/didClose", {"textDocument": {"uri": self.uri(path)}})

    def last(self, path):
        with self.lock:
            h = self.diags.get(self.uri(path), [])
            return h[-1] if h else None

    def stop(self):
        try:
            self.request("shutdown", None, timeout=3)
        except Exception: pass
        try: self.p.kill()
        except Exception: pass

def brief(diags):
    if diags is None: return None
    return sorted((d["code"], d["range"]["start"]["line"], d["range"]["start"]["character"], d["range"]["end"]["character"], d["message"]) for d in diags)
