#!/usr/bin/env python3
"""C19 hunt 1b (same root cause as hunt_1: diagnostics are pushed only for the document named
in the notification, nothing re-publishes when the rest of the index moves).
Edit history over "a document and its conftest files": both are open, the cause of the test
file's diagnostics is removed by an edit of conftest.py -> the client keeps the stale
diagnostics for the test file; the reverse edit (cause introduced in conftest.py) raises nothing.
"""
import tempfile, pathlib, sys, time
sys.path.insert(0, str(pathlib.Path(__file__).resolve().parent))
from hunt_lsp import Server, brief

d = pathlib.Path(tempfile.mkdtemp(prefix="c19_h1b_")).resolve()
C1 = ("import pytest\n\n@pytest.fixture\ndef db():\n    return 1\n\n"
      "@pytest.fixture\ndef fn_dep():\n    return 1\n")
# db renamed away, fn_dep now session-scoped: both causes removed
C2 = ("import pytest\n\n@pytest.fixture\ndef database():\n    return 1\n\n"
      "@pytest.fixture(scope='session')\ndef fn_dep():\n    return 1\n")
T = ("import pytest\n\n"
     "@pytest.fixture(scope='session')\n"
     "def sess(fn_dep):\n    return fn_dep\n\n"
     "def test_it():\n"
     "    assert db == 1\n")
c = d / "conftest.py"; c.write_text(C1)
t = d / "test_t.py"; t.write_text(T)

s = Server(d)
s.open(c, C1)
d1 = brief(s.open(t, T))
s.change(c, C2)
time.sleep(0.5)
stale = brief(s.last(t))
truth = brief(s.change(t, T))          # a no-op change of T forces the recomputation
print("T after open                         :", [x[0] for x in d1])
print("T as the client sees it after C edit :", [x[0] for x in stale])
print("T analysis for the same content      :", [x[0] for x in truth])
s.stop()
if stale != truth:
    print("FAIL: last received diagnostics of test_t.py are not those of the latest content of it and its conftest")
    sys.exit(1)
