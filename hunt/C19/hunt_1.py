#!/usr/bin/env python3
"""C19 hunt 1: a document opened while the initial workspace scan is still running gets
diagnostics computed against a half-filled index, and nothing is ever re-published when the
scan completes.  The client keeps a wrong (empty) diagnostic set for unchanged content.

Normal editor flow: initialize -> initialized -> didOpen(current buffer) back to back.
"""
import tempfile, pathlib, sys, time
sys.path.insert(0, str(pathlib.Path(__file__).resolve().parent))
from hunt_lsp import Server, brief

N = int(sys.argv[1]) if len(sys.argv) > 1 else 3000
d = pathlib.Path(tempfile.mkdtemp(prefix="c19_h1_")).resolve()
(d / "conftest.py").write_text(
    "import pytest\n\n@pytest.fixture\ndef db():\n    return 1\n\n"
    "@pytest.fixture\ndef fn_dep():\n    return 1\n")
# filler so that the scan takes a little while (as in any real repository)
for i in range(N):
    sub = d / f"pkg{i % 50}"
    sub.mkdir(exist_ok=True)
    (sub / f"test_m{i}.py").write_text("def test_x(db):\n    assert db\n" * 20)

t = d / "test_open.py"
src = ("import pytest\n\n"
       "@pytest.fixture(scope='session')\n"
       "def sess(fn_dep):\n"          # scope-mismatch: session -> function (fn_dep in conftest)
       "    return fn_dep\n\n"
       "def test_it():\n"
       "    assert db == 1\n")         # undeclared-fixture: db
t.write_text(src)

# (A) editor flow: open immediately, do not wait for the scan
s = Server(d, wait_scan=False)
early = brief(s.open(t, src))
s.wait_log("Workspace scan complete")
time.sleep(1.0)                       # give the server every chance to re-publish
last_a = brief(s.last(t))
s.stop()

# (B) reference: same workspace, same content, opened after the scan
s = Server(d, wait_scan=True)
ref = brief(s.open(t, src))
s.stop()

print("opened during scan, first publish :", early)
print("opened during scan, last publish  :", last_a)
print("opened after scan (reference)     :", ref)
if last_a != ref:
    print("FAIL: client's last received diagnostics differ from the analysis of the (unchanged) latest content")
    sys.exit(1)
print("ok")
