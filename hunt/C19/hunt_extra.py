#!/usr/bin/env python3
"""Not counted as a finding (analysis completeness rather than publication): an undeclared use
is only reported when the fixture's definition precedes the using function in the module,
because availability is looked up while the module is still being registered top-down."""
import tempfile, pathlib, sys
sys.path.insert(0, str(pathlib.Path(__file__).resolve().parent))
from hunt_lsp import Server, brief
d = pathlib.Path(tempfile.mkdtemp(prefix="c19_hx_")).resolve()
src = ("import pytest\n\n"
       "def test_early():\n    late_fix.do()\n\n"
       "@pytest.fixture\ndef late_fix():\n    return 3\n\n"
       "def test_late():\n    late_fix.do()\n")
t = d / "test_order.py"; t.write_text(src)
s = Server(d)
got = brief(s.open(t, src)); s.stop()
for g in got: print(g)
lines = [g[1] for g in got]
print("expected undeclared-fixture on lines 3 and 10, got", lines)
sys.exit(0 if lines == [3, 10] else 1)
