#!/usr/bin/env python3
"""C19 hunt 2: one wrongly-typed value inside [tool.pytest-language-server] (or an unrelated
oddity elsewhere under [tool]) silently discards EVERY setting: the valid
disabled_diagnostics / exclude entries next to it are lost, so diagnostics the user disabled
are published anyway.  The bad item is not "ignored individually".
"""
import tempfile, pathlib, sys
sys.path.insert(0, str(pathlib.Path(__file__).resolve().parent))
from hunt_lsp import Server, brief

SRC = ("import pytest\n\n"
       "@pytest.fixture\n"
       "def fn_dep():\n    return 1\n\n"
       "@pytest.fixture(scope='session')\n"
       "def sess(fn_dep):\n    return fn_dep\n\n"
       "def test_it():\n"
       "    assert fn_dep == 1\n")

CASES = {
  # control: fully valid -> both codes suppressed
  "valid": '[tool.pytest-language-server]\ndisabled_diagnostics = ["undeclared-fixture", "scope-mismatch"]\n',
  # control: unknown *string* code is dropped individually (works)
  "unknown string code": '[tool.pytest-language-server]\ndisabled_diagnostics = ["undeclared-fixture", "bogus", "scope-mismatch"]\n',
  # an unknown code that is not a string
  "non-string code in list": '[tool.pytest-language-server]\ndisabled_diagnostics = ["undeclared-fixture", 42, "scope-mismatch"]\n',
  # an invalid exclude (a bare string instead of a list) next to valid disabled_diagnostics
  "exclude is a string": '[tool.pytest-language-server]\nexclude = "build"\ndisabled_diagnostics = ["undeclared-fixture", "scope-mismatch"]\n',
  # an invalid glob entry that is not a string
  "non-string glob in exclude": '[tool.pytest-language-server]\nexclude = ["build", 7]\ndisabled_diagnostics = ["undeclared-fixture", "scope-mismatch"]\n',
  # a planned/unused setting with the wrong type
  "skip_plugins wrong type": '[tool.pytest-language-server]\nskip_plugins = "pytest-xdist"\ndisabled_diagnostics = ["undeclared-fixture", "scope-mismatch"]\n',
}

bad = 0
for name, toml in CASES.items():
    d = pathlib.Path(tempfile.mkdtemp(prefix="c19_h2_")).resolve()
    (d / "pyproject.toml").write_text('[project]\nname = "x"\n\n' + toml)
    t = d / "test_cfg.py"
    t.write_text(SRC)
    s = Server(d)
    got = brief(s.open(t, SRC))
    s.stop()
    codes = sorted({g[0] for g in got})
    ok = codes == []
    bad += (not ok)
    print(f"{'ok  ' if ok else 'FAIL'} {name:28s} -> published codes {codes} (expected none: both are disabled)")
sys.exit(1 if bad else 0)
