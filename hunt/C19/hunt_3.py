#!/usr/bin/env python3
"""C19 hunt 3: workspace reached through a symlink (~/proj -> /data/proj, macOS /var -> /private/var ...).
Whenever the document's file does not exist on disk at the moment of the notification
(new buffer not saved yet / file deleted or moved by a branch switch while the buffer stays
open), Backend::uri_to_path cannot canonicalize and falls back to the *symlinked* path, while
the whole index (conftest.py definitions) is keyed by canonical paths.  The document is then
analysed "outside" its conftest hierarchy: undeclared-fixture and scope-mismatch findings that
involve conftest fixtures are not published, although the same content gets them as soon as the
file exists (or when the workspace is opened through its real path).
"""
import tempfile, pathlib, sys, os
sys.path.insert(0, str(pathlib.Path(__file__).resolve().parent))
from hunt_lsp import Server, brief

base = pathlib.Path(tempfile.mkdtemp(prefix="c19_h3_")).resolve()
real = base / "real"; real.mkdir()
link = base / "link"; os.symlink(real, link)
(real / "conftest.py").write_text(
    "import pytest\n\n@pytest.fixture\ndef db():\n    return 1\n\n"
    "@pytest.fixture\ndef fn_dep():\n    return 1\n")
SRC = ("import pytest\n\n"
       "@pytest.fixture(scope='session')\n"
       "def sess(fn_dep):\n    return fn_dep\n\n"
       "def test_it():\n"
       "    assert db == 1\n")
(real / "test_old.py").write_text(SRC)

fail = 0
s = Server(link)          # client uses the symlinked path everywhere, as editors do

# reference: a file that exists on disk
ref = brief(s.open(link / "test_old.py", SRC))
print("existing file                :", ref)

# (A) brand-new buffer, same content, not saved yet
new = brief(s.open(link / "test_new.py", SRC))
print("(A) new unsaved buffer       :", new)
if [x[0] for x in new] != [x[0] for x in ref]:
    print("FAIL (A): same content, same directory, different diagnostics"); fail = 1

# (B) existing, open document whose file disappears from disk; then an edit that changes nothing relevant
os.remove(real / "test_old.py")
after = brief(s.change(link / "test_old.py", SRC + "\n# comment\n"))
print("(B) after file deleted + edit:", after)
if [x[0] for x in after] != [x[0] for x in ref]:
    print("FAIL (B): diagnostics vanished although the causes are still in the buffer"); fail = 1
s.stop()
sys.exit(fail)
