#!/usr/bin/env python3
"""C19 hunt 5: the ranges of published diagnostics are byte offsets into a '\\n'-split line
table, not LSP positions (UTF-16 code units; '\\r' and '\\r\\n' also end a line).  With any
non-ASCII character earlier on the line the diagnostic sits on the wrong columns; with
CR-only line endings every diagnostic collapses onto line 0.
The expected positions are computed here straight from the text.
"""
import tempfile, pathlib, sys, re
sys.path.insert(0, str(pathlib.Path(__file__).resolve().parent))
from hunt_lsp import Server

def u16(s): return len(s.encode("utf-16-le")) // 2

def expected(text, needle, occurrence=0):
    """LSP (line, startchar, endchar) of the n-th occurrence of needle."""
    lines = re.split(r"\r\n|\r|\n", text)
    n = 0
    for i, l in enumerate(lines):
        for m in re.finditer(r"\b%s\b" % re.escape(needle), l):
            if n == occurrence:
                return (i, u16(l[:m.start()]), u16(l[:m.end()]))
            n += 1

d = pathlib.Path(tempfile.mkdtemp(prefix="c19_h5_")).resolve()
(d / "conftest.py").write_text("import pytest\n\n@pytest.fixture\ndef db():\n    return 1\n")
s = Server(d)
fail = 0

def check(name, path, text, needle, occ):
    global fail
    got = s.open(path, text)
    g = [(x["range"]["start"]["line"], x["range"]["start"]["character"], x["range"]["end"]["character"])
         for x in got if x["code"] == "undeclared-fixture"]
    exp = expected(text, needle, occ)
    ok = g == [exp]
    fail |= (not ok)
    print(f"{'ok  ' if ok else 'FAIL'} {name:34s} expected {exp} published {g}")

check("ascii (control)", d / "test_a.py",
      'def test_a():\n    assert "e" != db\n', "db", 0)
check("2-byte char before the name", d / "test_b.py",
      'def test_b():\n    assert "é" != db\n', "db", 0)
check("CJK text before the name", d / "test_c.py",
      'def test_c():\n    assert "数据库" != db\n', "db", 0)
check("emoji (astral) before the name", d / "test_d.py",
      'def test_d():\n    assert "🚀" != db\n', "db", 0)
check("CR-only line endings", d / "test_e.py",
      'def test_e():\r    assert db\r', "db", 0)
s.stop()
sys.exit(fail)
