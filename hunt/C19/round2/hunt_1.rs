// C19 hunt 1: content that is valid Python >= 3.12 (PEP 701 f-strings, PEP 696 type
// parameter defaults, ...) is rejected by rustpython-parser 0.4. The server treats it like
// a syntax error and "keeps previous data", so the findings published for the document are
// those of an OLDER version, at positions of the older text, for as long as the construct
// stays in the file. Removing the cause of a diagnostic does not clear it.
use pytest_language_server::FixtureDatabase;
use std::fs;
use tempfile::tempdir;

const CONFTEST: &str = "import pytest\n\n@pytest.fixture\ndef db():\n    return 1\n";

#[test]
fn stale_findings_after_change_to_valid_python_312() {
    let dir = tempdir().unwrap();
    let root = dir.path().canonicalize().unwrap();
    let v1 = "def test_a():\n    assert db\n";
    fs::write(root.join("conftest.py"), CONFTEST).unwrap();
    fs::write(root.join("test_a.py"), v1).unwrap();
    let db = FixtureDatabase::new();
    db.scan_workspace(&root);
    let doc = root.join("test_a.py");

    // didOpen
    db.document_opened(&doc);
    db.analyze_file(doc.clone(), v1);
    assert_eq!(db.get_undeclared_fixtures(&doc).len(), 1, "v1 uses db undeclared");

    // didChange: `db` is gone; the new text is valid Python 3.12 (python3.12 -c compiles it)
    let v2 = "def test_a():\n    d = {\"k\": 1}\n    x = f\"{d[\"k\"]}\"\n";
    db.analyze_file(doc.clone(), v2);
    let stale = db.get_undeclared_fixtures(&doc);
    assert!(
        stale.is_empty(),
        "the latest content does not mention `db`, yet the server would publish: {:?}",
        stale
    );
}

#[test]
fn conftest_with_pep701_fstring_provides_no_fixtures() {
    let dir = tempdir().unwrap();
    let root = dir.path().canonicalize().unwrap();
    // valid Python 3.12
    let conftest = "import pytest\n\nCFG = {\"name\": \"x\"}\nLABEL = f\"{CFG[\"name\"]}\"\n\n@pytest.fixture\ndef db():\n    return LABEL\n";
    let test = "def test_a():\n    assert db\n";
    fs::write(root.join("conftest.py"), conftest).unwrap();
    fs::write(root.join("test_a.py"), test).unwrap();
    let db = FixtureDatabase::new();
    db.scan_workspace(&root);
    let doc = root.join("test_a.py");
    db.document_opened(&doc);
    db.analyze_file(doc.clone(), test);
    assert_eq!(
        db.get_undeclared_fixtures(&doc).len(),
        1,
        "conftest.py defines `db`; its use without declaring it must be reported"
    );
}
