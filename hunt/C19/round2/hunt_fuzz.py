import tempfile, sys, random, shutil, json
import os, sys
sys.path.insert(0, os.path.dirname(os.path.abspath(__file__)))
os.environ.setdefault("PLS_BIN", os.path.join(os.path.dirname(os.path.abspath(__file__)), "target/debug/pytest-language-server"))
from hunt_lsp import *

def fx(name, deps="", scope=None, body="return 1"):
    dec = "@pytest.fixture" + ("(scope=\"%s\")" % scope if scope else "")
    return "%s\ndef %s(%s):\n    %s\n\n" % (dec, name, deps, body)
P = "import pytest\n\n"
ROOT_CONF = {
 "db_fn": P + fx("db"),
 "db_sess": P + fx("db", scope="session"),
 "none": P,
 "star": P + "from pkg.helper import *\n",
 "plug": P + "pytest_plugins = [\"pkg.helper\"]\n",
 "plug2": P + "pytest_plugins = \"pkg.helper2\"\n",
 "cyc": P + fx("db", "other") + fx("other", "db"),
 "bad": P + "@pytest.fixture\ndef db(:\n",
 "two": P + fx("db") + fx("other", scope="module"),
 "try": P + "try:\n    from pkg.helper import db\nexcept ImportError:\n    from pkg.helper2 import db\n",
}
PKG_CONF = {
 "none": P,
 "star": P + "from .helper import *\n",
 "star2": P + "from .helper2 import *\nfrom .helper import *\n",
 "named": P + "from .helper import db\n",
 "named2": P + "from .helper2 import other, db\n",
 "override": P + fx("db", "db", scope="module", body="return db"),
 "other_fn": P + fx("other"),
 "sessdep": P + fx("top", "db, other", scope="session"),
 "bad": P + "from .helper import *\ndef (\n",
}
HELPER = {
 "db_fn": P + fx("db"),
 "db_sess": P + fx("db", "other", scope="session"),
 "other": P + fx("other"),
 "imp2": P + "from .helper2 import *\n" + fx("db", "other"),
 "none": "X = 1\n",
 "bad": P + "@pytest.fixture\ndef db(:\n",
}
HELPER2 = {
 "other_mod": P + fx("other", scope="module"),
 "other_db": P + fx("other", "db"),
 "imp1": P + "from .helper import *\n" + fx("other"),
 "db_pkg": P + fx("db", scope="package"),
 "none": "Y = 2\n",
}
SUB_CONF = {
 "none": P,
 "over_other": P + fx("other", "other", scope="session", body="return other"),
 "db_class": P + fx("db", scope="class"),
 "up": P + "from ..helper2 import *\n",
}
DOC = {
 "use": "def test_a():\n    assert db\n    assert other\n",
 "sess": P + fx("sess", "db, other", scope="session", body="return db") + "def test_a(sess):\n    print(db)\n",
 "over": P + fx("db", "db", scope="package", body="return db") + "def test_a():\n    other.x\n",
 "cyc": P + fx("a", "b, db") + fx("b", "a") + "def test_a(a):\n    pass\n",
 "imp": P + "from .helper import *\n\n" + fx("m", "db", scope="module") + "def test_a():\n    db\n    other\n",
 "empty": "",
 "bad": "def test_a(:\n    assert db\n",
 "selfdep": P + fx("other", "other", body="return other") + "def test_b():\n    other()\n",
 "mod_other": P + fx("m", "other, top", scope="module") + "def test_c(m):\n    top\n",
 "plug": P + "pytest_plugins = ['pkg.helper2']\n" + fx("s", "other", scope="session") + "def test_d():\n    other\n",
}
FILES = {"conftest.py": ROOT_CONF, "pkg/conftest.py": PKG_CONF, "pkg/helper.py": HELPER, "pkg/helper2.py": HELPER2,
         "pkg/sub/conftest.py": SUB_CONF, "pkg/test_doc.py": DOC, "pkg/sub/test_doc2.py": DOC}
OPTIONAL = ["pkg/helper.py", "pkg/helper2.py", "pkg/conftest.py", "pkg/sub/conftest.py", "pkg/sub/test_doc2.py"]
BAD = "bad"
def fix_rel(f, t):
    # docs in sub import helper from parent
    if f == "pkg/sub/test_doc2.py": t = t.replace("from .helper import", "from ..helper import")
    return t
def text(f, k): return fix_rel(f, FILES[f][k])
def parsable(t):
    try: compile(t, "x", "exec"); return True
    except SyntaxError: return False

def gen(rng):
    init = {}
    for f, pool in FILES.items():
        if f in OPTIONAL and rng.random() < 0.25: continue
        ks = [k for k in pool if k != BAD]
        init[f] = rng.choice(ks)
    n = rng.randint(2, 12)
    evs = []; openset = set()
    for _ in range(n):
        f = rng.choice(list(FILES)); pool = FILES[f]; r = rng.random()
        if f in openset:
            if r < 0.7: evs.append(("change", f, rng.choice(list(pool))))
            elif r < 0.85: evs.append(("save", f))
            else: evs.append(("close", f)); openset.discard(f)
        else:
            k = init[f] if (f in init and r < 0.6) else rng.choice(list(pool))
            evs.append(("open", f, k)); openset.add(f)
    target = rng.choice(["pkg/test_doc.py", "pkg/test_doc.py", "pkg/sub/test_doc2.py", "pkg/conftest.py", "conftest.py", "pkg/helper.py", "pkg/sub/conftest.py"])
    final = rng.choice([k for k in FILES[target] if k != BAD])
    return init, evs, target, final

def run(init, evs, target, final):
    d0 = tempfile.mkdtemp(); d = os.path.realpath(d0)
    c0 = None
    try:
        disk = {"pkg/__init__.py": "", "pkg/sub/__init__.py": ""}
        for f, k in init.items(): disk[f] = text(f, k)
        write_tree(d, disk)
        s = Server(d)
        buf = {}
        def good(f):
            k = [k for k in FILES[f] if k != BAD][0]; return text(f, k)
        for ev in evs:
            f = ev[1]; p = os.path.join(d, f)
            if ev[0] == "open": buf[f] = text(f, ev[2]); s.open(p, buf[f])
            elif ev[0] == "change": buf[f] = text(f, ev[2]); s.change(p, buf[f])
            elif ev[0] in ("save", "close"):
                if not parsable(buf[f]): buf[f] = good(f); s.change(p, buf[f])
                write_tree(d, {f: buf[f]}); disk[f] = buf[f]
                if ev[0] == "close": s.close(p); del buf[f]
        for f in list(buf):
            if f != target and not parsable(buf[f]): buf[f] = good(f); s.change(os.path.join(d, f), buf[f])
        p = os.path.join(d, target); t = text(target, final)
        if target in buf: s.change(p, t)
        else: s.open(p, t)
        buf[target] = t
        warm = fmt(s.last(p)); s.stop()
        c0 = tempfile.mkdtemp(); c = os.path.realpath(c0)
        fin = dict(disk); fin.update(buf); write_tree(c, fin)
        s2 = Server(c)
        for f in buf:
            if f != target: s2.open(os.path.join(c, f), buf[f])
        s2.open(os.path.join(c, target), t)
        cold = fmt(s2.last(os.path.join(c, target))); s2.stop()
        return warm, cold
    finally:
        shutil.rmtree(d0, ignore_errors=True)
        if c0: shutil.rmtree(c0, ignore_errors=True)

if __name__ == "__main__":
    seed0 = int(sys.argv[1]); n = int(sys.argv[2])
    for seed in range(seed0, seed0 + n):
        rng = random.Random(seed)
        init, evs, target, final = gen(rng)
        try: warm, cold = run(init, evs, target, final)
        except Exception as e: print("SEED", seed, "ERROR", repr(e)); continue
        if warm != cold:
            print("SEED", seed, "DIFF"); print("  init", init); print("  evs", evs); print("  target", target, final)
            print("  warm", warm); print("  cold", cold); sys.stdout.flush()
    print("done", seed0)
