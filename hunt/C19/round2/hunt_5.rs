// C19 hunt 5: whether a use of a same-file fixture is an undeclared-fixture finding depends
// on whether the fixture is defined above or below the function that uses it: the body of a
// function is checked against the definitions recorded SO FAR in the single pass over the
// file. Moving a fixture below its user "clears" the diagnostic without removing the cause.
use pytest_language_server::FixtureDatabase;
use std::fs;
use tempfile::tempdir;

fn undeclared(text: &str) -> usize {
    let dir = tempdir().unwrap();
    let root = dir.path().canonicalize().unwrap();
    fs::write(root.join("test_a.py"), text).unwrap();
    let db = FixtureDatabase::new();
    db.scan_workspace(&root);
    let doc = root.join("test_a.py");
    db.document_opened(&doc);
    db.analyze_file(doc.clone(), text);
    db.get_undeclared_fixtures(&doc).len()
}

#[test]
fn verdict_does_not_depend_on_definition_order() {
    let above = "import pytest\n\n@pytest.fixture\ndef mine():\n    return 1\n\ndef test_a():\n    assert mine\n";
    let below = "import pytest\n\ndef test_a():\n    assert mine\n\n@pytest.fixture\ndef mine():\n    return 1\n";
    let a = undeclared(above);
    let b = undeclared(below);
    assert_eq!(a, 1, "fixture above its user");
    assert_eq!(b, a, "same program with the two definitions swapped");
}
