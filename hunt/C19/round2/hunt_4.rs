// C19 hunt 4: a fixture whose scope is not a string literal (pytest's documented "dynamic
// scope" callable, or a module constant) is recorded as function-scoped, so every broader
// fixture that requests it gets a scope-mismatch warning.
use pytest_language_server::FixtureDatabase;
use std::fs;
use tempfile::tempdir;

#[test]
fn dynamic_scope_is_not_function_scope() {
    let dir = tempdir().unwrap();
    let root = dir.path().canonicalize().unwrap();
    // https://docs.pytest.org/en/stable/how-to/fixtures.html#dynamic-scope
    let conftest = "import pytest\n\ndef determine_scope(fixture_name, config):\n    return \"session\"\n\n@pytest.fixture(scope=determine_scope)\ndef docker_container():\n    yield 1\n\nSESSION = \"session\"\n\n@pytest.fixture(scope=SESSION)\ndef settings():\n    return {}\n";
    let text = "import pytest\n\n@pytest.fixture(scope=\"session\")\ndef api(docker_container, settings):\n    return 1\n";
    fs::write(root.join("conftest.py"), conftest).unwrap();
    fs::write(root.join("test_a.py"), text).unwrap();
    let db = FixtureDatabase::new();
    db.scan_workspace(&root);
    let doc = root.join("test_a.py");
    db.document_opened(&doc);
    db.analyze_file(doc.clone(), text);
    let got: Vec<String> = db
        .detect_scope_mismatches_in_file(&doc)
        .into_iter()
        .map(|m| {
            format!(
                "{}-scoped '{}' depends on {}-scoped '{}'",
                m.fixture.scope.as_str(),
                m.fixture.name,
                m.dependency.scope.as_str(),
                m.dependency.name
            )
        })
        .collect();
    assert!(got.is_empty(), "both dependencies are session-scoped at run time: {:?}", got);
}
