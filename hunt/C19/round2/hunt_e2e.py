#!/usr/bin/env python3
"""End-to-end demonstrations for C19: drives the real binary over stdio and prints the
diagnostics the client LAST received for the document.  Usage:
    cargo build --offline && python3 hunt_e2e.py          (exit code 1 = violations shown)
"""
import os, sys, tempfile, json
sys.path.insert(0, os.path.dirname(os.path.abspath(__file__)))
os.environ.setdefault("PLS_BIN", os.path.join(os.path.dirname(os.path.abspath(__file__)), "target/debug/pytest-language-server"))
os.environ.pop("VIRTUAL_ENV", None)
from hunt_lsp import Server, fmt, write_tree

CONF = "import pytest\n\n@pytest.fixture\ndef db():\n    return 1\n\n@pytest.fixture\ndef client():\n    return 1\n"
failures = 0

def session(files, history, expect, title):
    """history: list of (kind, relpath, text); the last event's document is checked."""
    global failures
    with tempfile.TemporaryDirectory() as d:
        d = os.path.realpath(d)
        write_tree(d, files)
        s = Server(d)
        for kind, rel, text in history:
            p = os.path.join(d, rel)
            getattr(s, kind)(p, text)
        got = [(x[0], "line %d col %d-%d" % (x[1], x[2], x[3]), x[4]) for x in fmt(s.last(os.path.join(d, history[-1][1])))]
        s.stop()
    ok = got == expect
    failures += not ok
    print("%s\n    expected: %s\n    received: %s\n    => %s\n" % (title, expect, got, "ok" if ok else "VIOLATION"))

# 1. valid Python 3.12 text freezes the document's findings
V1 = "def test_a():\n    assert db\n"
V2 = "def test_a():\n    d = {\"k\": 1}\n    x = f\"{d[\"k\"]}\"\n"      # python3.12: compiles
session({"conftest.py": CONF, "test_a.py": V1},
        [("open", "test_a.py", V1), ("change", "test_a.py", V2)], [],
        "1. didOpen(v1 uses db) ; didChange(v2: no db, PEP 701 f-string)")
V3 = "def test_a[T = int]():\n    pass\n"                                   # python3.13: compiles
session({"conftest.py": CONF, "test_a.py": V1},
        [("open", "test_a.py", V1), ("change", "test_a.py", V3)], [],
        "1b. didOpen(v1 uses db) ; didChange(v3: no db, PEP 696 type parameter default)")

# 2. overriding a built-in fixture, no venv below the workspace root
T2 = "import pytest\n\n@pytest.fixture\ndef tmp_path(tmp_path):\n    return tmp_path / \"sub\"\n\ndef test_a(tmp_path):\n    pass\n"
session({"test_a.py": T2}, [("open", "test_a.py", T2)], [],
        "2. `def tmp_path(tmp_path)` override, no virtual environment in the workspace")

# 3. names bound by the module / the function itself
T3 = "try:\n    import client\nexcept ImportError:\n    client = None\n\ndef test_a():\n    client.get()\n\ndef test_b():\n    from myapp import db\n    db.connect()\n"
session({"conftest.py": CONF, "test_a.py": T3}, [("open", "test_a.py", T3)], [],
        "3. optional module-level import / import inside the test function")

# 4. dynamic scope
C4 = "import pytest\n\ndef determine_scope(fixture_name, config):\n    return \"session\"\n\n@pytest.fixture(scope=determine_scope)\ndef docker_container():\n    yield 1\n"
T4 = "import pytest\n\n@pytest.fixture(scope=\"session\")\ndef api(docker_container):\n    return 1\n"
session({"conftest.py": C4, "test_a.py": T4}, [("open", "test_a.py", T4)], [],
        "4. session fixture requesting a fixture with pytest's dynamic scope")

# 5. definition order inside the document
ABOVE = "import pytest\n\n@pytest.fixture\ndef mine():\n    return 1\n\ndef test_a():\n    assert mine\n"
BELOW = "import pytest\n\ndef test_a():\n    assert mine\n\n@pytest.fixture\ndef mine():\n    return 1\n"
session({"test_a.py": ABOVE}, [("open", "test_a.py", ABOVE), ("change", "test_a.py", BELOW)],
        [("undeclared-fixture", "line 3 col 11-15", "Fixture 'mine' is used but not declared as a parameter")],
        "5. didOpen(fixture above its user: 1 finding) ; didChange(fixture moved below its user)")

sys.exit(1 if failures else 0)
