import os, sys, tempfile
sys.path.insert(0, os.path.dirname(os.path.abspath(__file__)))
os.environ.setdefault("PLS_BIN", os.path.join(os.path.dirname(os.path.abspath(__file__)), "target/debug/pytest-language-server"))
from hunt_lsp import Server, fmt, write_tree
CONF = "import pytest\n\n@pytest.fixture\ndef db():\n    return 1\n"
with tempfile.TemporaryDirectory() as d:
    d = os.path.realpath(d)
    write_tree(d, {"conftest.py": CONF, "test_a.py": ""})
    s = Server(d); p = os.path.join(d, "test_a.py")
    s.open(p, "def test_a():\r    assert db\r")      # CR-only line ends: legal Python, legal LSP
    print("CR  :", [(x[0], x[1], x[2], x[3]) for x in fmt(s.last(p))], " expected line 1 col 11-13")
    s.change(p, "def test_a():\n    assert db\n")
    print("LF  :", [(x[0], x[1], x[2], x[3]) for x in fmt(s.last(p))])
    s.stop()
