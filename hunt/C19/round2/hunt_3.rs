// C19 hunt 3: undeclared-fixture is published for names that the test module / function
// binds itself, whenever the binding is made by a statement the two collectors
// (collect_module_level_names, collect_local_variables) do not know: imports in a function
// body, nested def/class, `except ... as`, walrus, starred targets, and at module level
// anything inside try / if / for / with.
use pytest_language_server::FixtureDatabase;
use std::fs;
use tempfile::tempdir;

const CONFTEST: &str = "import pytest\n\n@pytest.fixture\ndef db():\n    return 1\n\n@pytest.fixture\ndef client():\n    return 1\n";

fn undeclared(text: &str) -> Vec<String> {
    let dir = tempdir().unwrap();
    let root = dir.path().canonicalize().unwrap();
    fs::write(root.join("conftest.py"), CONFTEST).unwrap();
    fs::write(root.join("test_a.py"), text).unwrap();
    let db = FixtureDatabase::new();
    db.scan_workspace(&root);
    let doc = root.join("test_a.py");
    db.document_opened(&doc);
    db.analyze_file(doc.clone(), text);
    db.get_undeclared_fixtures(&doc)
        .into_iter()
        .map(|u| format!("{}@{}", u.name, u.line))
        .collect()
}

#[test]
fn module_level_optional_import() {
    // the classic optional-dependency idiom
    let got = undeclared(
        "try:\n    import client\nexcept ImportError:\n    client = None\n\ndef test_a():\n    client.get()\n",
    );
    assert!(got.is_empty(), "`client` is the module imported above: {:?}", got);
}

#[test]
fn import_inside_the_test_function() {
    let got = undeclared("def test_a():\n    from myapp import client\n    client.get()\n");
    assert!(got.is_empty(), "`client` is imported one line above: {:?}", got);
}

#[test]
fn nested_helper_function() {
    let got = undeclared("def test_a():\n    def client():\n        return 2\n    client()\n");
    assert!(got.is_empty(), "`client` is a local function: {:?}", got);
}

#[test]
fn except_as_and_walrus() {
    let got = undeclared(
        "def test_a():\n    try:\n        pass\n    except Exception as db:\n        print(db)\n    if (client := 3):\n        print(client)\n",
    );
    // (the body of `try` is not even looked at, the walrus use is)
    assert!(got.is_empty(), "both names are bound locally: {:?}", got);
}
