"""Minimal LSP stdio driver for pytest-language-server."""
import json, os, subprocess, sys, threading, time, queue, pathlib

BIN = os.environ.get("PLS_BIN") or os.path.join(os.path.dirname(os.path.abspath(__file__)), "target/debug/pytest-language-server")

class Server:
    def __init__(self, root, wait_scan=True, env=None, init_extra=None):
        e = dict(os.environ)
        e.setdefault("RUST_LOG", "warn")
        if env: e.update(env)
        self.p = subprocess.Popen([BIN], stdin=subprocess.PIPE, stdout=subprocess.PIPE,
                                  stderr=subprocess.PIPE, env=e)
        self.q = queue.Queue()
        self.wlock = threading.Lock()
        self.diags = {}      # uri -> list of all publishes (each a list)
        self.logs = []
        self.id = 0
        self.stderr = []
        threading.Thread(target=self._reader, daemon=True).start()
        threading.Thread(target=self._err, daemon=True).start()
        self.version = {}
        params = {"processId": None, "capabilities": {}}
        if root is not None:
            params["rootUri"] = pathlib.Path(root).as_uri()
            params["workspaceFolders"] = [{"uri": pathlib.Path(root).as_uri(), "name": "w"}]
        if init_extra: params.update(init_extra)
        self.request("initialize", params)
        self.notify("initialized", {})
        if wait_scan and root is not None:
            self.wait_log("Workspace scan complete")

    def _err(self):
        for line in self.p.stderr:
            self.stderr.append(line.decode(errors="replace"))

    def _reader(self):
        f = self.p.stdout
        while True:
            hdr = {}
            while True:
                line = f.readline()
                if not line:
                    self.q.put(None); return
                line = line.strip()
                if not line: break
                k, v = line.split(b":", 1)
                hdr[k.lower()] = v.strip()
            n = int(hdr[b"content-length"])
            body = f.read(n)
            msg = json.loads(body)
            if "method" in msg and "id" in msg:
                # server->client request: answer null
                self._send({"jsonrpc": "2.0", "id": msg["id"], "result": None})
            elif msg.get("method") == "textDocument/publishDiagnostics":
                self.diags.setdefault(msg["params"]["uri"], []).append(msg["params"]["diagnostics"])
            elif msg.get("method") == "window/logMessage":
                self.logs.append(msg["params"]["message"])
            self.q.put(msg)

    def _send(self, obj):
        b = json.dumps(obj).encode()
        with self.wlock:
            self.p.stdin.write(b"Content-Length: %d\r\n\r\n" % len(b) + b)
            self.p.stdin.flush()

    def request(self, method, params, timeout=20):
        self.id += 1
        i = self.id
        self._send({"jsonrpc": "2.0", "id": i, "method": method, "params": params})
        end = time.time() + timeout
        while time.time() < end:
            try:
                m = self.q.get(timeout=0.2)
            except queue.Empty:
                continue
            if m is None: raise RuntimeError("server died: " + "".join(self.stderr[-20:]))
            if m.get("id") == i and "method" not in m:
                return m
        raise TimeoutError(method)

    def notify(self, method, params):
        self._send({"jsonrpc": "2.0", "method": method, "params": params})

    def wait_log(self, text, timeout=30):
        end = time.time() + timeout
        while time.time() < end:
            if any(text in l for l in self.logs): return
            time.sleep(0.02)
        raise TimeoutError(text)

    def sync(self):
        """round trip: all earlier notifications have been handled (mostly)."""
        # a request is processed concurrently; use a few barrier requests plus small sleep
        self.request("workspace/symbol", {"query": "zzzz_no_such"})
        time.sleep(0.15)

    def uri(self, path): return pathlib.Path(path).as_uri()

    def open(self, path, text, uri=None):
        u = uri or self.uri(path)
        self.version[u] = 1
        self.notify("textDocument/didOpen", {"textDocument": {"uri": u, "languageId": "python", "version": 1, "text": text}})
        self.sync()

    def change(self, path, text, uri=None):
        u = uri or self.uri(path)
        self.version[u] = self.version.get(u, 1) + 1
        self.notify("textDocument/didChange", {"textDocument": {"uri": u, "version": self.version[u]},
                                                "contentChanges": [{"text": text}]})
        self.sync()

    def close(self, path, uri=None):
        u = uri or self.uri(path)
        self.notify("textDocument/didClose", {"textDocument": {"uri": u}})
        self.sync()

    def last(self, path, uri=None):
        u = uri or self.uri(path)
        l = self.diags.get(u)
        return None if not l else l[-1]

    def stop(self):
        try:
            self.request("shutdown", None, timeout=3)
            self.notify("exit", None)
        except Exception:
            pass
        try: self.p.wait(timeout=2)
        except Exception: self.p.kill()

def fmt(diags):
    if diags is None: return None
    return sorted((d["code"], d["range"]["start"]["line"], d["range"]["start"]["character"],
                   d["range"]["end"]["character"], d["message"]) for d in diags)

def write_tree(root, files):
    for rel, text in files.items():
        p = pathlib.Path(root) / rel
        p.parent.mkdir(parents=True, exist_ok=True)
        if isinstance(text, bytes): p.write_bytes(text)
        else: p.write_text(text)
