import tempfile, sys, json
import os, sys
sys.path.insert(0, os.path.dirname(os.path.abspath(__file__)))
os.environ.setdefault("PLS_BIN", os.path.join(os.path.dirname(os.path.abspath(__file__)), "target/debug/pytest-language-server"))
from hunt_lsp import *
CONF = "import pytest\n\n@pytest.fixture\ndef db():\n    return 1\n"
def trial(N):
    with tempfile.TemporaryDirectory() as d:
        d = os.path.realpath(d)
        write_tree(d, {"conftest.py": CONF, "test_a.py": ""})
        s = Server(d)
        p = os.path.join(d, "test_a.py")
        s.open(p, "")
        frames = b""
        for i in range(N):
            b = json.dumps({"jsonrpc": "2.0", "method": "textDocument/didChange", "params": {"textDocument": {"uri": s.uri(p), "version": i + 2}, "contentChanges": [{"text": "def test_a():\n    db\n" if i % 2 == 0 else ""}]}}).encode()
            frames += b"Content-Length: %d\r\n\r\n" % len(b) + b
        with s.wlock:
            s.p.stdin.write(frames); s.p.stdin.flush()
        try:
            s.request("workspace/symbol", {"query": "zz"}, timeout=8)
            ok = True
        except TimeoutError:
            ok = False
        print(N, "responsive" if ok else "DEADLOCKED", "publishes:", len(s.diags.get(s.uri(p), [])))
        if ok: s.stop()
        else: s.p.kill()
for n in (50, 100, 104, 120):
    trial(n)
