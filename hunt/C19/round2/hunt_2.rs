// C19 hunt 2: overriding a built-in (or third-party) fixture while requesting the original
// - the documented pytest idiom `def tmp_path(tmp_path)` - is published as an ERROR
// "Circular fixture dependency detected: tmp_path -> tmp_path" whenever the server did not
// find a virtual environment below the workspace root (.venv / venv / env / $VIRTUAL_ENV),
// i.e. whenever pytest's own fixtures are not in the index.
use pytest_language_server::FixtureDatabase;
use std::fs;
use tempfile::tempdir;

#[test]
fn overriding_a_builtin_fixture_is_not_a_cycle() {
    std::env::remove_var("VIRTUAL_ENV");
    let dir = tempdir().unwrap();
    let root = dir.path().canonicalize().unwrap();
    let text = "import pytest\n\n@pytest.fixture\ndef tmp_path(tmp_path):\n    return tmp_path / \"sub\"\n\ndef test_a(tmp_path):\n    pass\n";
    fs::write(root.join("test_a.py"), text).unwrap();
    let db = FixtureDatabase::new();
    db.scan_workspace(&root);
    let doc = root.join("test_a.py");
    db.document_opened(&doc);
    db.analyze_file(doc.clone(), text);
    let cycles = db.detect_fixture_cycles_in_file(&doc);
    assert!(
        cycles.is_empty(),
        "pytest runs this file fine; published circular-dependency findings: {:?}",
        cycles.iter().map(|c| c.cycle_path.join(" -> ")).collect::<Vec<_>>()
    );
}
