#!/usr/bin/env python3
"""C11 hunt 2: four edits wedge the server when the client does not answer the
unsolicited server->client request `workspace/inlayHint/refresh`.

The client below declares NO capabilities (in particular no
workspace.inlayHint.refreshSupport), so per the LSP spec the server must not send
that request at all.  The server sends it anyway from did_change and *awaits the
answer inside the notification handler*.  tower-lsp-server runs at most 4 handler
futures at a time (buffer_unordered(4)), so after 4 didChange notifications every
slot is occupied by a handler waiting for a reply that never comes and no further
request is ever answered.

usage: hunt_2.py [path-to-binary] [--answer-refresh]   (control run: with
--answer-refresh the client replies to the refresh requests and hover is answered)
exit status 1 = wedge reproduced.
"""
import json, os, subprocess, sys, tempfile, threading, time, queue

args = [a for a in sys.argv[1:] if not a.startswith("--")]
ANSWER = "--answer-refresh" in sys.argv
BIN = args[0] if args else os.path.join(os.path.dirname(os.path.abspath(__file__)),
                                        "target/release/pytest-language-server")

ws = tempfile.mkdtemp(prefix="hunt2_")
test_py = os.path.join(ws, "test_a.py")
SRC = "import pytest\n\n@pytest.fixture\ndef fx():\n    return 1\n\ndef test_a(fx):\n    pass\n"
open(test_py, "w").write(SRC)

p = subprocess.Popen([BIN], stdin=subprocess.PIPE, stdout=subprocess.PIPE,
                     stderr=subprocess.DEVNULL)
inbox = queue.Queue()


def send(msg):
    body = json.dumps(msg).encode()
    p.stdin.write(b"Content-Length: %d\r\n\r\n" % len(body) + body)
    p.stdin.flush()


def reader():
    f = p.stdout
    while True:
        hdr = b""
        while not hdr.endswith(b"\r\n\r\n"):
            c = f.read(1)
            if not c:
                inbox.put(None)
                return
            hdr += c
        n = int([l for l in hdr.split(b"\r\n") if l.lower().startswith(b"content-length")][0].split(b":")[1])
        msg = json.loads(f.read(n))
        # server -> client request
        if "method" in msg and "id" in msg:
            print("  server->client request:", msg["method"], "id", msg["id"],
                  "(answered)" if ANSWER else "(NOT answered)")
            if ANSWER:
                send({"jsonrpc": "2.0", "id": msg["id"], "result": None})
            continue
        inbox.put(msg)


threading.Thread(target=reader, daemon=True).start()


def wait_response(rid, timeout):
    end = time.time() + timeout
    while time.time() < end:
        try:
            m = inbox.get(timeout=max(0.01, end - time.time()))
        except queue.Empty:
            return None
        if m is None:
            return "EOF"
        if m.get("id") == rid:
            return m
    return None


uri = "file://" + test_py
send({"jsonrpc": "2.0", "id": 1, "method": "initialize",
      "params": {"processId": None, "rootUri": "file://" + ws, "capabilities": {}}})
assert wait_response(1, 10), "no initialize response"
send({"jsonrpc": "2.0", "method": "initialized", "params": {}})
send({"jsonrpc": "2.0", "method": "textDocument/didOpen",
      "params": {"textDocument": {"uri": uri, "languageId": "python", "version": 1, "text": SRC}}})

hover = {"textDocument": {"uri": uri}, "position": {"line": 6, "character": 12}}
send({"jsonrpc": "2.0", "id": 2, "method": "textDocument/hover", "params": hover})
r = wait_response(2, 10)
print("hover before edits answered:", bool(r and "result" in r))

for v in range(2, 6):  # four edits
    send({"jsonrpc": "2.0", "method": "textDocument/didChange",
          "params": {"textDocument": {"uri": uri, "version": v},
                     "contentChanges": [{"text": SRC + "# edit %d\n" % v}]}})
time.sleep(1.0)

send({"jsonrpc": "2.0", "id": 3, "method": "textDocument/hover", "params": hover})
r = wait_response(3, 10)
ok = bool(r and r != "EOF" and "result" in r)
print("hover after 4 edits answered within 10s:", ok)
p.kill()
if not ok:
    print("FAIL: server is wedged - no request is answered any more")
    sys.exit(1)
print("OK")
