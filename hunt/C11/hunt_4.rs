// C11 hunt 4: a request at line u32::MAX panics in every position-taking query of the
// library ("attempt to add with overflow") when the crate is built with overflow checks
// (the default `dev`/`test` profile, i.e. `cargo build`, `cargo run`, `cargo test`).
//
// Root cause: `(line + 1) as usize` adds in u32 *before* widening:
//   src/fixtures/resolver.rs:30, :118, :345, :673, :1468 and src/providers/mod.rs:120.
// In the LSP binary the handlers run on the single task that serves all requests, so the
// panic takes the whole server down (checked with target/debug/pytest-language-server:
// `textDocument/hover` at line 4294967295 -> process exits with status 101).
//
// With the release profile (no overflow checks, as shipped) the addition wraps to 0 and the
// request is answered with an empty result, so this is a defect of checked builds only.
use pytest_language_server::FixtureDatabase;
use std::panic::{catch_unwind, AssertUnwindSafe};
use std::path::PathBuf;

const SRC: &str =
    "import pytest\n\n@pytest.fixture\ndef fx():\n    return 1\n\ndef test_a(fx):\n    pass\n";

#[test]
fn position_at_u32_max_is_answered_without_panic() {
    let db = FixtureDatabase::new();
    let path = PathBuf::from("/tmp/hunt4_ws/test_a.py");
    db.analyze_file(path.clone(), SRC);

    // sanity: a normal position works
    assert!(db.find_fixture_definition(&path, 6, 12).is_some());

    let mut panicked = Vec::new();
    let mut check = |name: &str, f: &dyn Fn()| {
        if catch_unwind(AssertUnwindSafe(f)).is_err() {
            panicked.push(name.to_string());
        }
    };
    check("find_fixture_definition (hover, definition)", &|| {
        let _ = db.find_fixture_definition(&path, u32::MAX, 0);
    });
    check("find_fixture_at_position (references)", &|| {
        let _ = db.find_fixture_at_position(&path, u32::MAX, 0);
    });
    check(
        "find_fixture_or_definition_at_position (implementation, call hierarchy)",
        &|| {
            let _ = db.find_fixture_or_definition_at_position(&path, u32::MAX, 0);
        },
    );
    check("get_completion_context (completion)", &|| {
        let _ = db.get_completion_context(&path, u32::MAX, 0);
    });

    assert!(
        panicked.is_empty(),
        "queries at line u32::MAX panicked instead of returning an empty result: {:#?}",
        panicked
    );
}
