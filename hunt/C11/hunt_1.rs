// C11 hunt 1 (library-level companion of hunt_1.py): scanning a workspace in which ONE test
// file contains a long operator chain kills the whole process with a stack overflow
// (SIGABRT, "thread ... has overflowed its stack") - the healthy conftest.py next to it is
// never reported.  A stack overflow is not a panic; catch_unwind cannot contain it, so this
// test does not "fail" in the usual way: the test binary is aborted by the runtime.
use pytest_language_server::FixtureDatabase;
use std::fs;

#[test]
fn one_deep_file_must_not_abort_the_scan_of_the_others() {
    let dir = tempfile::tempdir().unwrap();
    fs::write(
        dir.path().join("conftest.py"),
        "import pytest\n\n@pytest.fixture\ndef ok():\n    return 1\n",
    )
    .unwrap();
    // 50_000 terms, 200 KB: `X = 1 + 1 + ... + 1` -> left-deep BinOp tree of depth 50_000
    let deep = format!("X = 1{}\n\ndef test_a(ok):\n    pass\n", " + 1".repeat(50_000));
    fs::write(dir.path().join("test_deep.py"), deep).unwrap();

    let db = FixtureDatabase::new();
    db.scan_workspace(dir.path()); // <- aborts the process here (rayon worker, 2 MiB stack)

    assert!(
        db.definitions.contains_key("ok"),
        "fixture `ok` of the healthy conftest.py must be indexed"
    );
}
