#!/usr/bin/env python3
"""C11 hunt 5: one didChange whose text contains an unpaired UTF-16 surrogate (sent by
UTF-16 based editors as the JSON escape "\\ud800", e.g. half of an emoji being typed or
pasted) makes the server stop serving: the process exits silently with status 0 and
no later request is answered.  The same happens for any frame whose body is not valid JSON.

usage: hunt_5.py [path-to-binary]      exit status 1 = violation reproduced
"""
import json, os, queue, subprocess, sys, tempfile, threading, time

BIN = sys.argv[1] if len(sys.argv) > 1 else os.path.join(
    os.path.dirname(os.path.abspath(__file__)), "target/release/pytest-language-server")
SRC = "import pytest\n\n@pytest.fixture\ndef fx():\n    return 1\n\ndef test_a(fx):\n    pass\n"


def frame(msg):
    body = json.dumps(msg).encode()
    return b"Content-Length: %d\r\n\r\n" % len(body) + body


def raw(body):
    return b"Content-Length: %d\r\n\r\n" % len(body) + body


def run(name, make_bad):
    ws = tempfile.mkdtemp(prefix="hunt5_")
    tp = os.path.join(ws, "test_a.py")
    open(tp, "w").write(SRC)
    uri = "file://" + tp
    p = subprocess.Popen([BIN], stdin=subprocess.PIPE, stdout=subprocess.PIPE, stderr=subprocess.DEVNULL)
    inbox = queue.Queue()

    def w(b):
        try:
            p.stdin.write(b)
            p.stdin.flush()
        except BrokenPipeError:
            pass

    def reader():
        f = p.stdout
        while True:
            hdr = b""
            while not hdr.endswith(b"\r\n\r\n"):
                c = f.read(1)
                if not c:
                    inbox.put(None)
                    return
                hdr += c
            n = int(hdr.split(b"Content-Length:")[1].split(b"\r\n")[0])
            m = json.loads(f.read(n))
            if "method" in m and "id" in m:  # answer server->client requests
                w(frame({"jsonrpc": "2.0", "id": m["id"], "result": None}))
                continue
            inbox.put(m)

    threading.Thread(target=reader, daemon=True).start()

    def wait(rid, t=5):
        end = time.time() + t
        while time.time() < end:
            try:
                m = inbox.get(timeout=0.1)
            except queue.Empty:
                continue
            if m is None:
                return None
            if m.get("id") == rid:
                return m
        return None

    w(frame({"jsonrpc": "2.0", "id": 1, "method": "initialize",
             "params": {"processId": None, "rootUri": "file://" + ws, "capabilities": {}}}))
    assert wait(1, 10)
    w(frame({"jsonrpc": "2.0", "method": "initialized", "params": {}}))
    w(frame({"jsonrpc": "2.0", "method": "textDocument/didOpen",
             "params": {"textDocument": {"uri": uri, "languageId": "python", "version": 1, "text": SRC}}}))
    if make_bad:
        w(make_bad(uri))
    time.sleep(0.5)
    w(frame({"jsonrpc": "2.0", "id": 2, "method": "textDocument/hover",
             "params": {"textDocument": {"uri": uri}, "position": {"line": 6, "character": 12}}}))
    r = wait(2)
    alive = bool(r and "result" in r)
    time.sleep(0.2)
    print("%-45s hover answered afterwards: %-5s  server exit status: %s" % (name, alive, p.poll()))
    p.kill()
    return alive


def lone_surrogate(uri):
    # what JSON.stringify produces for a buffer holding half a surrogate pair
    body = ('{"jsonrpc":"2.0","method":"textDocument/didChange","params":{"textDocument":{"uri":%s,'
            '"version":2},"contentChanges":[{"text":"X = \\"\\ud83d\\"\\n"}]}}' % json.dumps(uri)).encode()
    return raw(body)


ok = run("control (no bad frame)", None)
bad1 = run("didChange, text with unpaired surrogate", lone_surrogate)
bad2 = run("frame with a body that is not JSON", lambda uri: raw(b"{not json"))
if ok and not (bad1 and bad2):
    print("FAIL: one bad frame terminated the server (expected: error answer, keeps serving)")
    sys.exit(1)
print("OK")
