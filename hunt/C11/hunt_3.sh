#!/usr/bin/env bash
# C11 hunt 3: the CLI panics (exit status 101, "failed printing to stdout: Broken pipe")
# when its stdout is closed before it has finished printing, e.g. `... fixtures list . | head -1`.
# Every line of both sub-commands is written with println!, which panics on a write error;
# Rust ignores SIGPIPE by default, so the error is EPIPE rather than a silent termination.
# usage: hunt_3.sh [path-to-binary]     exit status 1 = violation reproduced
BIN=${1:-$(dirname "$(readlink -f "$0")")/target/release/pytest-language-server}
WS=$(mktemp -d)
python3 - "$WS" <<'PY'
import sys
open(sys.argv[1] + "/conftest.py", "w").write(
    "import pytest\n" + "".join("@pytest.fixture\ndef fx_%d():\n    return 1\n" % i for i in range(3000)))
PY
fail=0
for sub in "fixtures list" "fixtures unused"; do
  RUST_BACKTRACE=0 $BIN $sub "$WS" 2>"$WS/err.txt" | head -1 >/dev/null
  rc=${PIPESTATUS[0]}
  echo "\`$sub <ws> | head -1\`: exit status $rc"
  grep -a "panicked" -A1 "$WS/err.txt" | sed 's/^/    /'
  if [ "$rc" = 101 ] || grep -aq panicked "$WS/err.txt"; then fail=1; fi
done
rm -rf "$WS"
if [ $fail = 1 ]; then echo "FAIL: the CLI panicked"; exit 1; fi
echo OK
