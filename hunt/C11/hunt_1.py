#!/usr/bin/env python3
"""C11 hunt 1: one ~200 KB Python file with a long operator chain aborts the whole
process (stack overflow -> SIGABRT), both in the CLI (the workspace scan of all other
files is lost) and in the language server (didOpen of such a buffer kills the server).

`X = 1 + 1 + ... + 1` with N terms is parsed by rustpython-parser into a left-deep
BinOp tree of depth N.  Dropping that tree (and, inside test/fixture bodies, walking it
in visit_expr_for_names) recurses once per level on a 2 MiB rayon / tokio worker stack.
A stack overflow is not a panic: it cannot be caught, the process is killed.

usage: hunt_1.py [path-to-binary]      exit status 1 = violation reproduced
"""
import json, os, subprocess, sys, tempfile, time

BIN = sys.argv[1] if len(sys.argv) > 1 else os.path.join(
    os.path.dirname(os.path.abspath(__file__)), "target/release/pytest-language-server")
N = int(os.environ.get("N", "50000"))
DEEP = "X = 1" + " + 1" * N + "\n\ndef test_a(ok):\n    pass\n"
CONFTEST = "import pytest\n\n@pytest.fixture\ndef ok():\n    return 1\n"
failed = False

# ---------------------------------------------------------------- CLI
ws = tempfile.mkdtemp(prefix="hunt1_")
open(os.path.join(ws, "conftest.py"), "w").write(CONFTEST)
open(os.path.join(ws, "test_deep.py"), "w").write(DEEP)
print("deep file size: %d bytes" % len(DEEP))
r = subprocess.run([BIN, "fixtures", "list", ws], capture_output=True, text=True)
print("CLI `fixtures list`: returncode", r.returncode)
print("  stderr:", r.stderr.strip().replace("\n", " | ")[:200])
print("  fixture `ok` from the healthy conftest.py listed:", "ok" in r.stdout)
if r.returncode != 0 or "ok" not in r.stdout:
    print("FAIL: one file aborted the scan of the whole workspace (expected rc 0 and `ok` listed)")
    failed = True

# ---------------------------------------------------------------- LSP
ws2 = tempfile.mkdtemp(prefix="hunt1_lsp_")
open(os.path.join(ws2, "conftest.py"), "w").write(CONFTEST)
small = os.path.join(ws2, "test_small.py")
open(small, "w").write("def test_a(ok):\n    pass\n")
if os.environ.get("LSP_MODE", "scan") == "scan":
    # (a) the deep file simply lives in the workspace: the background scan kills the server
    open(os.path.join(ws2, "test_deep.py"), "w").write(DEEP)
    LSP_DEEP = DEEP
else:
    # (b) the deep text only arrives as an editor buffer; handlers run on the 8 MiB main
    # thread, so it takes a longer chain (about 1.2 MB of text)
    LSP_DEEP = "X = 1" + " + 1" * (6 * N) + "\n"
p = subprocess.Popen([BIN], stdin=subprocess.PIPE, stdout=subprocess.PIPE, stderr=subprocess.PIPE)


def send(msg):
    body = json.dumps(msg).encode()
    try:
        p.stdin.write(b"Content-Length: %d\r\n\r\n" % len(body) + body)
        p.stdin.flush()
    except BrokenPipeError:
        pass  # the server is already dead


def read_until(rid):
    while True:
        hdr = b""
        while not hdr.endswith(b"\r\n\r\n"):
            c = p.stdout.read(1)
            if not c:
                return None
            hdr += c
        n = int(hdr.split(b"Content-Length:")[1].split(b"\r\n")[0])
        m = json.loads(p.stdout.read(n))
        if m.get("id") == rid and "method" not in m:
            return m
        if "method" in m and "id" in m:  # answer server->client requests
            send({"jsonrpc": "2.0", "id": m["id"], "result": None})


send({"jsonrpc": "2.0", "id": 1, "method": "initialize",
      "params": {"processId": None, "rootUri": "file://" + ws2, "capabilities": {}}})
assert read_until(1)
send({"jsonrpc": "2.0", "method": "initialized", "params": {}})
time.sleep(1.0)  # let the workspace scan finish
uri = "file://" + os.path.join(ws2, "test_scratch.py")
send({"jsonrpc": "2.0", "method": "textDocument/didOpen",
      "params": {"textDocument": {"uri": uri, "languageId": "python", "version": 1, "text": LSP_DEEP}}})
send({"jsonrpc": "2.0", "id": 2, "method": "textDocument/hover",
      "params": {"textDocument": {"uri": "file://" + small}, "position": {"line": 0, "character": 11}}})
resp = read_until(2)
time.sleep(0.5)
rc = p.poll()
print("LSP [%s]: hover on another file after scan + didOpen(deep buffer) answered:" % os.environ.get("LSP_MODE", "scan"), resp is not None)
print("LSP: server process returncode:", rc, "(None = still running)")
if rc is not None:
    print("  stderr:", p.stderr.read().decode(errors="replace").strip().replace("\n", " | ")[-200:])
if resp is None or rc is not None:
    print("FAIL: the server died (expected: request answered, server keeps serving)")
    failed = True
else:
    p.kill()

sys.exit(1 if failed else 0)
