//! C11 "very large": analysing one file is quadratic in the number of module-level names.
//! Every test/fixture function copies *all* module-level names of the file into a fresh map
//! (undeclared.rs:42-46), and every non-fixture `def` is such a name (analyzer.rs:886-903),
//! so a module with N test functions costs N*N string clones + hash inserts - on the single
//! task that serves all requests, on every didOpen/didChange, and in the workspace scan / CLI.
use pytest_language_server::FixtureDatabase;
use std::path::PathBuf;
use std::time::Instant;

fn module(n: usize) -> String {
    let mut t = String::from("import pytest\n\n");
    for i in 0..n {
        t.push_str(&format!("def test_{i}(fx):\n    assert fx\n\n"));
    }
    t
}

fn analyse_secs(n: usize) -> f64 {
    let db = FixtureDatabase::new();
    db.analyze_file(
        PathBuf::from("/tmp/hunt3/conftest.py"),
        "import pytest\n\n@pytest.fixture\ndef fx():\n    return 1\n",
    );
    let text = module(n);
    let t = Instant::now();
    db.analyze_file(PathBuf::from("/tmp/hunt3/test_big.py"), &text);
    let secs = t.elapsed().as_secs_f64();
    assert_eq!(db.usages.get(&PathBuf::from("/tmp/hunt3/test_big.py")).unwrap().len(), n);
    eprintln!("{n:>6} test functions ({:>7} bytes): analyze_file took {secs:.2}s", text.len());
    secs
}

#[test]
fn analysis_time_is_linear_in_file_size() {
    // HUNT3_BIG=16000 (a 550 KB module) shows the 40 s figure of FINDINGS.md in a release build
    let big_n: usize = std::env::var("HUNT3_BIG").ok().and_then(|s| s.parse().ok()).unwrap_or(8_000);
    let small = analyse_secs(big_n / 8);
    let big = analyse_secs(big_n); // 8x the size
    let ratio = big / small;
    eprintln!("8x the input -> {ratio:.1}x the time");
    // linear would be ~8x; allow 3x slack for noise
    assert!(ratio < 24.0, "analysis time grew {ratio:.1}x for 8x the input (quadratic)");
}
