#!/usr/bin/env python3
"""C11, fault sequence "the server's log sink fails" (stderr is a pipe whose reader went away,
or a log file on a full disk).  tracing-subscriber's fmt layer reports a failed write with
eprintln!, which itself panics when stderr cannot be written.  So the first event at the
configured level (default: warn)
  * in the scan thread (scanner.rs:504 "No virtual environment found", emitted between scan
    phase 3 and phase 4) kills the workspace scan before the imported fixture modules are
    indexed, and
  * on the request task (e.g. providers/mod.rs:69 for a URI without a path, config/mod.rs:112
    for a malformed pyproject.toml during initialize) kills the task that serves all requests.
usage: hunt_2.py [path-to-binary]"""
import json, subprocess, threading, queue, os, sys, tempfile, time

class Lsp:
    def __init__(self, binary, stderr):
        self.p = subprocess.Popen([binary], stdin=subprocess.PIPE, stdout=subprocess.PIPE, stderr=stderr)
        self.q = queue.Queue(); self.next_id = 1
        threading.Thread(target=self._reader, daemon=True).start()
    def _reader(self):
        f = self.p.stdout
        while True:
            line = f.readline()
            if not line:
                self.q.put(None); return
            n = 0
            while line and line.strip():
                k, _, v = line.decode().partition(":")
                if k.strip().lower() == "content-length": n = int(v)
                line = f.readline()
            msg = json.loads(f.read(n))
            if "id" in msg and "method" in msg:      # server -> client request: answer it
                self._send({"jsonrpc": "2.0", "id": msg["id"], "result": None})
            elif "id" in msg:
                self.q.put(msg)
    def _send(self, obj):
        data = json.dumps(obj).encode()
        try:
            self.p.stdin.write(b"Content-Length: %d\r\n\r\n" % len(data) + data); self.p.stdin.flush()
        except (BrokenPipeError, OSError):
            pass
    def notify(self, method, params): self._send({"jsonrpc": "2.0", "method": method, "params": params})
    def request(self, method, params, timeout=5):
        i = self.next_id; self.next_id += 1
        self._send({"jsonrpc": "2.0", "id": i, "method": method, "params": params})
        end = time.time() + timeout
        while True:
            try: m = self.q.get(timeout=max(0.01, end - time.time()))
            except queue.Empty: return ("TIMEOUT", None)
            if m is None: return ("DEAD", None)
            if m.get("id") == i: return ("OK", m)

BIN = sys.argv[1] if len(sys.argv) > 1 else "/tmp/wt/h2_C11/target/release/pytest-language-server"
root = os.path.realpath(tempfile.mkdtemp())
os.makedirs(root + "/pkg")
open(root + "/pkg/__init__.py", "w").write("")
open(root + "/pkg/helpers.py", "w").write("import pytest\n@pytest.fixture\ndef helper_fixture(): return 1\n")
open(root + "/pkg/conftest.py", "w").write("from .helpers import *\n")
open(root + "/pkg/test_a.py", "w").write("def test_a(helper_fixture): pass\n")
uri = "file://" + root + "/pkg/test_a.py"

def run(stderr, label):
    s = Lsp(BIN, stderr)
    s.request("initialize", {"processId": None, "rootUri": "file://" + root, "capabilities": {}})
    s.notify("initialized", {})
    time.sleep(1.5)  # let the workspace scan finish
    st, m = s.request("textDocument/definition", {"textDocument": {"uri": uri}, "position": {"line": 0, "character": 13}})
    d = m.get("result") if st == "OK" else st
    print(f"[{label}] go-to-definition of helper_fixture (defined in a star-imported module): {d}")
    # a request that makes the server log a warning on the request task (uri without a path)
    st3, m3 = s.request("textDocument/hover", {"textDocument": {"uri": "untitled:"}, "position": {"line": 0, "character": 0}})
    print(f"[{label}] hover on 'untitled:' -> {st3} {m3}")
    st4, _ = s.request("workspace/symbol", {"query": ""})
    print(f"[{label}] next request (workspace/symbol) -> {st4}")
    time.sleep(0.3)
    print(f"[{label}] process:", "still running" if s.p.poll() is None else "exited with status %s" % s.p.poll())
    s.p.kill()
    return isinstance(d, dict) and st3 == "OK" and st4 == "OK"

baseline = run(open(os.devnull, "wb"), "stderr=/dev/null")
full = run(open("/dev/full", "wb"), "stderr=/dev/full (log file on a full disk)")
r, w = os.pipe(); os.close(r)
closed = run(w, "stderr=pipe whose reader is gone")
assert baseline, "baseline broken"

# the same fault plus a malformed pyproject.toml: the warning is logged by the initialize handler itself
open(root + "/pyproject.toml", "w").write("[tool.pytest-language-server\nexclude = [\n")
init_ok = True
for label, err in (("stderr=/dev/null", open(os.devnull, "wb")), ("stderr=/dev/full", open("/dev/full", "wb"))):
    s = Lsp(BIN, err)
    st, _ = s.request("initialize", {"processId": None, "rootUri": "file://" + root, "capabilities": {}})
    time.sleep(0.2)
    print(f"[malformed pyproject.toml, {label}] initialize -> {st}; process:", "still running" if s.p.poll() is None else "exited %s" % s.p.poll())
    init_ok = init_ok and st == "OK"
    s.p.kill()
full = full and init_ok
if not (full and closed):
    print("FAIL: with a failing log sink the workspace scan is cut short and the server stops answering")
    sys.exit(1)
print("PASS")
