#!/usr/bin/env bash
# C11 "the CLI never panic": the reader of the CLI's output goes away (| head, a pager that is
# quit, a CI step that stops reading) or the output cannot be written (disk full).
# usage: ./hunt_1.sh [path-to-binary]
BIN=${1:-/tmp/wt/h2_C11/target/release/pytest-language-server}
W=$(mktemp -d)
mkdir -p "$W/pkg"
for i in $(seq 1 400); do
  printf 'import pytest\n\n@pytest.fixture\ndef fixture_%s():\n    return %s\n' "$i" "$i" > "$W/pkg/test_mod_$i.py"
done
fail=0

echo "== fixtures list | head -1"
"$BIN" fixtures list "$W" 2>"$W/err1" | head -1
st=${PIPESTATUS[0]}
echo "exit status of the CLI: $st"; grep -m2 -E "panicked|failed printing" "$W/err1"
[ "$st" = 101 ] && fail=1

echo "== fixtures list | true   (reader gone before the first line)"
"$BIN" fixtures list "$W" 2>"$W/err1" | true
st=${PIPESTATUS[0]}
echo "exit status of the CLI: $st"; grep -m2 -E "panicked|failed printing" "$W/err1"
[ "$st" = 101 ] && fail=1

echo "== fixtures unused --format json > /dev/full"
"$BIN" fixtures unused --format json "$W" >/dev/full 2>"$W/err2"
st=$?
echo "exit status of the CLI: $st (documented: 0 = none unused, 1 = unused fixtures found)"; grep -m2 -E "panicked|failed printing" "$W/err2"
[ "$st" = 101 ] && fail=1

rm -rf "$W"
if [ $fail = 1 ]; then echo "FAIL: the CLI panicked"; exit 1; fi
echo PASS
