#!/usr/bin/env python3
"""LSP-level view of hunt_3.rs: one didOpen/didChange of a large but ordinary test module keeps
every request (for any document) waiting.  usage: hunt_3_lsp.py [binary] [number-of-test-functions]"""
import json, subprocess, threading, queue, os, sys, tempfile, time

class Lsp:
    def __init__(self, binary, stderr):
        self.p = subprocess.Popen([binary], stdin=subprocess.PIPE, stdout=subprocess.PIPE, stderr=stderr)
        self.q = queue.Queue(); self.next_id = 1
        threading.Thread(target=self._reader, daemon=True).start()
    def _reader(self):
        f = self.p.stdout
        while True:
            line = f.readline()
            if not line:
                self.q.put(None); return
            n = 0
            while line and line.strip():
                k, _, v = line.decode().partition(":")
                if k.strip().lower() == "content-length": n = int(v)
                line = f.readline()
            msg = json.loads(f.read(n))
            if "id" in msg and "method" in msg:      # server -> client request: answer it
                self._send({"jsonrpc": "2.0", "id": msg["id"], "result": None})
            elif "id" in msg:
                self.q.put(msg)
    def _send(self, obj):
        data = json.dumps(obj).encode()
        try:
            self.p.stdin.write(b"Content-Length: %d\r\n\r\n" % len(data) + data); self.p.stdin.flush()
        except (BrokenPipeError, OSError):
            pass
    def notify(self, method, params): self._send({"jsonrpc": "2.0", "method": method, "params": params})
    def request(self, method, params, timeout=5):
        i = self.next_id; self.next_id += 1
        self._send({"jsonrpc": "2.0", "id": i, "method": method, "params": params})
        end = time.time() + timeout
        while True:
            try: m = self.q.get(timeout=max(0.01, end - time.time()))
            except queue.Empty: return ("TIMEOUT", None)
            if m is None: return ("DEAD", None)
            if m.get("id") == i: return ("OK", m)

BIN = sys.argv[1] if len(sys.argv) > 1 else "/tmp/wt/h2_C11/target/release/pytest-language-server"
N = int(sys.argv[2]) if len(sys.argv) > 2 else 16000
root = os.path.realpath(tempfile.mkdtemp())
open(root + "/conftest.py", "w").write("import pytest\n\n@pytest.fixture\ndef fx():\n    return 1\n")
open(root + "/test_small.py", "w").write("def test_s(fx):\n    pass\n")
text = "import pytest\n\n" + "".join(f"def test_{i}(fx):\n    assert fx\n\n" for i in range(N))
s = Lsp(BIN, open(os.devnull, "wb"))
s.request("initialize", {"processId": None, "rootUri": "file://" + root, "capabilities": {}})
s.notify("initialized", {}); time.sleep(1)
hover = {"textDocument": {"uri": "file://" + root + "/test_small.py"}, "position": {"line": 0, "character": 11}}
t = time.time(); st, _ = s.request("textDocument/hover", hover, timeout=900); print("hover on test_small.py before: %s in %.2fs" % (st, time.time() - t))
s.notify("textDocument/didOpen", {"textDocument": {"uri": "file://" + root + "/test_big.py", "languageId": "python", "version": 1, "text": text}})
print("didOpen of test_big.py (%d test functions, %d bytes) sent" % (N, len(text)))
t = time.time(); st, _ = s.request("textDocument/hover", hover, timeout=900); dt = time.time() - t
print("hover on test_small.py right after: %s in %.2fs" % (st, dt))
s.p.kill()
if dt > 5:
    print("FAIL: one notification about one document kept every request waiting for %.0f s" % dt); sys.exit(1)
print("PASS")
