// Temporary dumb mutation fuzzer (not a deliverable).
use pytest_language_server::FixtureDatabase;
use std::panic::{catch_unwind, AssertUnwindSafe};
use std::path::PathBuf;

struct Rng(u64);
impl Rng {
    fn next(&mut self) -> u64 {
        let mut x = self.0;
        x ^= x << 13;
        x ^= x >> 7;
        x ^= x << 17;
        self.0 = x;
        x
    }
    fn below(&mut self, n: usize) -> usize {
        if n == 0 {
            0
        } else {
            (self.next() % n as u64) as usize
        }
    }
}

const SEEDS: &[&str] = &[
    r#"import pytest
from .helpers import *
from ..pkg.mod import fix_a as fa, fix_b
pytest_plugins = ["a.b", "c"]
pytestmark = [pytest.mark.usefixtures("db", "é"), pytest.mark.skip]

@pytest.fixture(scope="session", autouse=True, name="renamed")
def db(request, tmp_path: "Path", *, kw=1) -> Generator[int, None, None]:
    """Doc é
    　more
      indented
    """
    yield 1

@pytest.fixture
async def client(db, /, other: int = 3):
    return db

class TestX:
    @pytest.mark.usefixtures("db",
        "client")
    @pytest.mark.parametrize("a,b", [(1, 2)], indirect=["a"])
    def test_m(self, a, b, renamed):
        x = client
        with open(db) as f:
            assert f, client
        return [client, {db: client}, -db, db[client], db.x(client), db < client]

def test_é(db, client: int, *args, **kw):
    pass

other = pytest.fixture()(db)
"#,
    r#"import pytest
@pytest.fixture
def a(b): return f"{b!r:>{10}} {b=}"
@pytest.fixture
def b(a):
    match a:
        case [1, *rest] if rest: pass
        case {"k": v, **kw}: pass
        case Point(x=0) | None: pass
    x: int = 3
    x += a
    for i in a:
        yield i
    else:
        pass
    try:
        pass
    except* ValueError as e:
        pass
    finally:
        pass
def test_x(a, b):  # 日本語コメント
    lambda q: (yield)
    print(a, b, sep="\N{BULLET}", end='ሴ\x41\101')
    z = b"bytes\xff" rb'raw' Rb"x" u"uni" 0x_1f 0o17 0b1_0 1_0.0e-1_0j 1e5 .5j
    async with a as b, b as (c, d):
        await c
    w = a if b else c
    del w
    global g
    nonlocal h
    t = *a, *b
    s = a[1:2, ::3, ...]
    v = {**a, 'k': b}
    u = {*a}
    (y := 10)
    type X[T] = list[T]
"#,
    "import pytest\r\n@pytest.fixture\r\ndef a():\r\n    '''d\r\n    x'''\r\n    return 1\r\n\r\ndef test_a(a):\r\n    pass\r\n",
    "import pytest\r@pytest.fixture\rdef a():\r    return 1\r\rdef test_a(a):\r    pass\r",

    "import pytest\n@pytest.fixture\ndef a():\n    x = f'{a!r:>{w}.{p}f} {{}} {b=!s:^10} {f\"{c}\"} {d:{e}{f}}'\n    y = f\"\"\"{\n  a\n}\"\"\" rf'\\{a}' fr\"{a}\\N{DASH}\" f'{a:%Y-%m-%d}' f'{a,}' f'{*a,}' f'{lambda: 1}' f'{(lambda x: x)}' f'{a[\"k\"]}' f'{a if b else c}' f'{yield}' f'{await a}'\n    z = '\\N{LATIN SMALL LETTER A}\\u00e9\\U0001F600\\x41\\101\\\n cont' b'\\xff\\N{x}' '\\'\n    return 0xFF + 0o7 + 0b1 + 1_0 + 1.0e+1_0 + 1j + 0_0 + 00 + 1.__class__ + 1 .real\n",
    "\u{feff}import pytest\n@pytest.fixture\ndef a(): pass\ndef test_a(\n    a,\n    b,\n): pass\n",
];

const TOKENS: &[&str] = &[
    "é", "　", "\u{feff}", "😀", "\u{0301}", "\0", "\r", "\n", "\r\n", "\x0c", "\t", " ", "\\", "\\\n",
    "\"", "'", "\"\"\"", "'''", "f\"", "f'{", "{", "}", "(", ")", "[", "]", ":", ",", ".", "@", "=",
    "->", "*", "**", "def ", "async ", "class ", "lambda ", "yield ", "match ", "case ", "\\N{", "\\x",
    "\\u", "\\U0010ffff", "\\777", "0x", "0b", "0o", "1e", "1_", "1__0", "0_", "_", "..", "...",
    "not ", "in ", "is ", "if ", "else ", "import ", "from ", "as ", "#", ";", "!", "!r", ":=", "%",
    "b'", "rb'", "u'", "ur'", "bf'", "f'{{", "f'{x!", "f'{x:", "f'{x=", "$", "?", "`", "~", "<>",
    "pytest.fixture", "@pytest.mark.usefixtures(\"", "pytestmark = ", "pytest_plugins = ", "):",
    "\u{2028}", "\u{85}", "\u{1c}", "\u{a0}", "ª", "ǅ", "𝐱", "١", "print ", "exec ", "await ",
    "type ", "global ", "nonlocal ", "del ", "with ", "try:", "except*", "finally:", "0777", "1if",
    "1.e", "1.j", "0xg", "1_000_", "9999999999999999999999999999999999999999", "1e99999",
];

fn mutate(rng: &mut Rng, s: &str) -> String {
    let mut chars: Vec<char> = s.chars().collect();
    let n = 1 + rng.below(4);
    for _ in 0..n {
        match rng.below(6) {
            0 | 1 => {
                let pos = rng.below(chars.len() + 1);
                let tok = TOKENS[rng.below(TOKENS.len())];
                let v: Vec<char> = tok.chars().collect();
                chars.splice(pos..pos, v);
            }
            2 => {
                if !chars.is_empty() {
                    let a = rng.below(chars.len());
                    let len = 1 + rng.below(8);
                    let b = (a + len).min(chars.len());
                    chars.drain(a..b);
                }
            }
            3 => {
                // truncate
                if !chars.is_empty() {
                    let a = rng.below(chars.len());
                    chars.truncate(a);
                }
            }
            4 => {
                if !chars.is_empty() {
                    let a = rng.below(chars.len());
                    let len = 1 + rng.below(20);
                    let b = (a + len).min(chars.len());
                    let seg: Vec<char> = chars[a..b].to_vec();
                    let pos = rng.below(chars.len() + 1);
                    chars.splice(pos..pos, seg);
                }
            }
            _ => {
                if !chars.is_empty() {
                    let a = rng.below(chars.len());
                    let tok = TOKENS[rng.below(TOKENS.len())];
                    chars[a] = tok.chars().next().unwrap();
                }
            }
        }
    }
    chars.into_iter().collect()
}

fn queries(db: &FixtureDatabase, path: &PathBuf, rng: &mut Rng, text: &str) {
    let nlines = text.lines().count() as u32 + 2;
    for _ in 0..12 {
        let line = match rng.below(10) {
            0 => u32::MAX - 1,
            1 => nlines,
            _ => rng.below(nlines as usize) as u32,
        };
        let ch = match rng.below(10) {
            0 => u32::MAX,
            1 => 0,
            _ => rng.below(60) as u32,
        };
        let _ = db.find_fixture_definition(path, line, ch);
        let _ = db.find_fixture_at_position(path, line, ch);
        let _ = db.find_fixture_or_definition_at_position(path, line, ch);
        let _ = db.get_completion_context(path, line, ch);
        let _ = db.is_inside_function(path, line, ch);
        let _ = db.find_containing_function(path, line as usize);
        let _ = db.get_function_param_insertion_info(path, line as usize);
    }
    let _ = db.get_available_fixtures(path);
    let _ = db.get_undeclared_fixtures(path);
    let _ = db.detect_fixture_cycles();
    let _ = db.detect_scope_mismatches_in_file(path);
    let defs: Vec<_> = db
        .definitions
        .iter()
        .flat_map(|e| e.value().clone())
        .collect();
    for d in defs.iter().take(5) {
        let _ = db.find_references_for_definition(d);
    }
}

#[test]
fn fuzz() {
    std::panic::set_hook(Box::new(|_| {}));
    let seed: u64 = std::env::var("FUZZ_SEED")
        .ok()
        .and_then(|s| s.parse().ok())
        .unwrap_or(0x9E3779B97F4A7C15);
    let secs: u64 = std::env::var("FUZZ_SECS")
        .ok()
        .and_then(|s| s.parse().ok())
        .unwrap_or(60);
    let mut rng = Rng(seed);
    let start = std::time::Instant::now();
    let path = PathBuf::from("/tmp/hunt_fuzz_ws/test_fuzz.py");
    let mut found = 0;
    let mut iters = 0u64;
    let mut seen: std::collections::HashSet<String> = Default::default();
    while start.elapsed().as_secs() < secs && found < 8 {
        iters += 1;
        let db = FixtureDatabase::new();
        let mut text = SEEDS[rng.below(SEEDS.len())].to_string();
        db.analyze_file(path.clone(), &text);
        let steps = 1 + rng.below(5);
        for _ in 0..steps {
            text = mutate(&mut rng, &text);
            let t = text.clone();
            let mut qrng = Rng(rng.next() | 1);
            let r = catch_unwind(AssertUnwindSafe(|| {
                db.analyze_file(path.clone(), &t);
                queries(&db, &path, &mut qrng, &t);
            }));
            if let Err(e) = r {
                let msg = e
                    .downcast_ref::<String>()
                    .cloned()
                    .or_else(|| e.downcast_ref::<&str>().map(|s| s.to_string()))
                    .unwrap_or_default();
                let key: String = msg.chars().take(60).collect();
                if seen.insert(key) {
                    found += 1;
                    eprintln!("=== PANIC: {msg}\n--- input ({} bytes):\n{:?}\n", t.len(), t);
                }
                break;
            }
        }
    }
    eprintln!("iters={iters} found={found}");
    assert_eq!(found, 0);
}
