//! C01 hunt 3: usage columns are stored as BYTE offsets in the line, the request column is a
//! UTF-16 column (and extract_word_at_position indexes by char). Any non-ASCII character earlier
//! on the line shifts the usage range, so the first column(s) of the token resolve to nothing.
use pytest_language_server::FixtureDatabase;
use std::fs;
use std::path::{Path, PathBuf};

fn mk(files: &[(&str, &str)]) -> (tempfile::TempDir, PathBuf) {
    let dir = tempfile::tempdir().unwrap();
    let root = dir.path().canonicalize().unwrap();
    for (rel, content) in files {
        let p = root.join(rel);
        fs::create_dir_all(p.parent().unwrap()).unwrap();
        fs::write(&p, content).unwrap();
    }
    (dir, root)
}

/// go-to-definition at (0-based line, UTF-16 column) -> "relative/path.py:LINE" (1-based line)
fn goto(db: &FixtureDatabase, root: &Path, rel: &str, line0: u32, col: u32) -> Option<String> {
    db.find_fixture_definition(&root.join(rel), line0, col).map(|d| {
        format!(
            "{}:{}",
            d.file_path.strip_prefix(root).unwrap_or(&d.file_path).display(),
            d.line
        )
    })
}

const FIX: &str = "import pytest\n\n@pytest.fixture\ndef fix():\n    return 1\n";

#[test]
fn every_column_of_param_after_non_ascii_identifier() {
    let (_d, root) = mk(&[
        ("conftest.py", FIX),
        // d0 e1 f2 _3 t4 e5 s6 t7 _8 c9 a10 f11 é12 (13 f14 i15 x16 )17
        ("test_x.py", "def test_café(fix):\n    pass\n"),
    ]);
    let db = FixtureDatabase::new();
    db.scan_workspace(&root);
    let got: Vec<_> = (14..17).map(|c| goto(&db, &root, "test_x.py", 0, c)).collect();
    assert_eq!(got, vec![Some("conftest.py:4".to_string()); 3]);
}

#[test]
fn every_column_of_usefixtures_string_after_non_ascii_string() {
    let (_d, root) = mk(&[
        (
            "conftest.py",
            "import pytest\n\n@pytest.fixture\ndef fix():\n    return 1\n\n@pytest.fixture\ndef données():\n    return 1\n",
        ),
        (
            "test_x.py",
            "import pytest\n\n@pytest.mark.usefixtures(\"données\", \"fix\")\ndef test_x():\n    pass\n",
        ),
    ]);
    let db = FixtureDatabase::new();
    db.scan_workspace(&root);
    // `@pytest.mark.usefixtures(` is 25 columns, `"données", ` is 11, then `"` -> fix at 37..40
    let line = "@pytest.mark.usefixtures(\"données\", \"fix\")";
    let chars: Vec<char> = line.chars().collect();
    let start = chars.windows(4).position(|w| w == ['"', 'f', 'i', 'x']).unwrap() + 1;
    assert_eq!(start, 37);
    let got: Vec<_> = (start..start + 3)
        .map(|c| goto(&db, &root, "test_x.py", 2, c as u32))
        .collect();
    assert_eq!(got, vec![Some("conftest.py:4".to_string()); 3]);
}
