use pytest_language_server::FixtureDatabase;
use std::fs;
use std::path::{Path, PathBuf};

#[allow(dead_code)]
fn write(root: &Path, rel: &str, content: &str) -> PathBuf {
    let p = root.join(rel);
    fs::create_dir_all(p.parent().unwrap()).unwrap();
    fs::write(&p, content).unwrap();
    p
}

/// go-to-definition with the cursor on the second character of `token`, on the first line
/// of `file` that contains `line_marker`. Returns (file relative to root, 1-based line).
#[allow(dead_code)]
fn goto(db: &FixtureDatabase, root: &Path, file: &Path, token: &str, line_marker: &str) -> Option<(String, usize)> {
    let content = fs::read_to_string(file).unwrap();
    for (i, l) in content.lines().enumerate() {
        if l.contains(line_marker) {
            let col = l.find(token).unwrap();
            return db.find_fixture_definition(file, i as u32, col as u32 + 1).map(|d| {
                (
                    d.file_path.strip_prefix(root).unwrap_or(&d.file_path).to_string_lossy().to_string(),
                    d.line,
                )
            });
        }
    }
    panic!("marker line not found");
}

#[allow(dead_code)]
fn workspace() -> (tempfile::TempDir, PathBuf) {
    let t = tempfile::tempdir().unwrap();
    let r = t.path().canonicalize().unwrap();
    (t, r)
}

#[allow(dead_code)]
const FOO: &str = "import pytest\n\n@pytest.fixture\ndef foo():\n    return 'X'\n";

// FINDING 3: directories called env / target / vendor / bower_components (which pytest
// does collect from) are skipped by the workspace scan, and opening a test file does not
// index the conftest.py files above it: the nearest conftest.py is ignored and the
// fixture it overrides resolves to the outer definition.

fn nearest_conftest_in(dir: &str) -> Option<(String, usize)> {
    let (_t, r) = workspace();
    write(&r, "tests/conftest.py", "import pytest\n\n@pytest.fixture\ndef cfg():\n    return 'outer'\n");
    write(
        &r,
        &format!("tests/{dir}/conftest.py"),
        "import pytest\n\n\n@pytest.fixture\ndef cfg():\n    return 'inner'\n",
    );
    let t = write(
        &r,
        &format!("tests/{dir}/test_it.py"),
        "def test_it(cfg):\n    assert cfg == 'inner'\n",
    );
    let db = FixtureDatabase::new();
    db.scan_workspace(&r);
    // what the server does on textDocument/didOpen (src/main.rs:171)
    db.analyze_file(t.clone(), &fs::read_to_string(&t).unwrap());
    goto(&db, &r, &t, "cfg", "def test_it")
}

#[test]
fn control_ordinary_directory_name() {
    assert_eq!(nearest_conftest_in("unit"), Some(("tests/unit/conftest.py".to_string(), 5)));
}

#[test]
fn nearest_conftest_in_a_directory_called_env() {
    assert_eq!(nearest_conftest_in("env"), Some(("tests/env/conftest.py".to_string(), 5)));
}

#[test]
fn nearest_conftest_in_a_directory_called_target() {
    assert_eq!(nearest_conftest_in("target"), Some(("tests/target/conftest.py".to_string(), 5)));
}

#[test]
fn nearest_conftest_in_a_directory_called_vendor() {
    assert_eq!(nearest_conftest_in("vendor"), Some(("tests/vendor/conftest.py".to_string(), 5)));
}
