use pytest_language_server::FixtureDatabase;
use std::fs;
use std::path::{Path, PathBuf};

#[allow(dead_code)]
fn write(root: &Path, rel: &str, content: &str) -> PathBuf {
    let p = root.join(rel);
    fs::create_dir_all(p.parent().unwrap()).unwrap();
    fs::write(&p, content).unwrap();
    p
}

/// go-to-definition with the cursor on the second character of `token`, on the first line
/// of `file` that contains `line_marker`. Returns (file relative to root, 1-based line).
#[allow(dead_code)]
fn goto(db: &FixtureDatabase, root: &Path, file: &Path, token: &str, line_marker: &str) -> Option<(String, usize)> {
    let content = fs::read_to_string(file).unwrap();
    for (i, l) in content.lines().enumerate() {
        if l.contains(line_marker) {
            let col = l.find(token).unwrap();
            return db.find_fixture_definition(file, i as u32, col as u32 + 1).map(|d| {
                (
                    d.file_path.strip_prefix(root).unwrap_or(&d.file_path).to_string_lossy().to_string(),
                    d.line,
                )
            });
        }
    }
    panic!("marker line not found");
}

#[allow(dead_code)]
fn workspace() -> (tempfile::TempDir, PathBuf) {
    let t = tempfile::tempdir().unwrap();
    let r = t.path().canonicalize().unwrap();
    (t, r)
}

#[allow(dead_code)]
const FOO: &str = "import pytest\n\n@pytest.fixture\ndef foo():\n    return 'X'\n";

// FINDING 1: a conftest's `try: from .a import f / except ImportError: from .b import f`
// resolves to the fallback module b (never imported at run time), and imports under
// `if TYPE_CHECKING:` (never executed) are treated as real imports.

#[test]
fn try_except_import_fallback_resolves_to_the_module_python_imports() {
    let (_t, r) = workspace();
    write(&r, "tests/__init__.py", "");
    write(&r, "tests/fast_impl.py", "import pytest\n\n@pytest.fixture\ndef backend():\n    return 'fast'\n");
    write(&r, "tests/slow_impl.py", "import pytest\n\n@pytest.fixture\ndef backend():\n    return 'slow'\n");
    write(
        &r,
        "tests/conftest.py",
        "try:\n    from .fast_impl import backend\nexcept ImportError:\n    from .slow_impl import backend\n",
    );
    let t = write(&r, "tests/test_x.py", "def test_x(backend):\n    assert backend == 'fast'\n");
    let db = FixtureDatabase::new();
    db.scan_workspace(&r);
    // tests/fast_impl.py exists, so the try body succeeds and the handler never runs:
    // pytest injects fast_impl.backend (checked with plain python: pycheck/check_imports.py)
    assert_eq!(
        goto(&db, &r, &t, "backend", "def test_x"),
        Some(("tests/fast_impl.py".to_string(), 4))
    );
}

#[test]
fn import_under_type_checking_is_not_an_import_at_run_time() {
    let (_t, r) = workspace();
    write(&r, "conftest.py", "import pytest\n\n@pytest.fixture\ndef foo():\n    return 'root'\n");
    write(&r, "tests/__init__.py", "");
    write(&r, "tests/helpers.py", "import pytest\n\n@pytest.fixture\ndef foo():\n    return 'helper'\n");
    write(
        &r,
        "tests/conftest.py",
        "from typing import TYPE_CHECKING\n\nif TYPE_CHECKING:\n    from .helpers import foo\n",
    );
    let t = write(&r, "tests/test_x.py", "def test_x(foo):\n    assert foo == 'root'\n");
    let db = FixtureDatabase::new();
    db.scan_workspace(&r);
    // TYPE_CHECKING is False at run time: nobody imports tests/helpers.py, pytest injects
    // the root conftest's foo
    assert_eq!(
        goto(&db, &r, &t, "foo", "def test_x"),
        Some(("conftest.py".to_string(), 4))
    );
}
