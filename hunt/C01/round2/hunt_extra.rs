use pytest_language_server::FixtureDatabase;
use std::fs;
use std::path::{Path, PathBuf};

fn write(root: &Path, rel: &str, content: &str) -> PathBuf {
    let p = root.join(rel);
    fs::create_dir_all(p.parent().unwrap()).unwrap();
    fs::write(&p, content).unwrap();
    p
}

/// go-to-definition on the first occurrence of `token` on 0-based line `line` of `file`
fn goto(db: &FixtureDatabase, file: &Path, token: &str, nth_line_containing: &str) -> Option<(PathBuf, usize)> {
    let content = fs::read_to_string(file).unwrap();
    for (i, l) in content.lines().enumerate() {
        if l.contains(nth_line_containing) {
            let col = l.find(token).unwrap();
            return db
                .find_fixture_definition(file, i as u32, col as u32 + 1)
                .map(|d| (d.file_path, d.line));
        }
    }
    panic!("line not found");
}

fn root() -> (tempfile::TempDir, PathBuf) {
    let t = tempfile::tempdir().unwrap();
    let r = t.path().canonicalize().unwrap();
    (t, r)
}

#[test]
fn e1_try_except_import() {
    let (_t, r) = root();
    write(&r, "tests/__init__.py", "");
    write(&r, "tests/fast_impl.py", "import pytest\n\n@pytest.fixture\ndef backend():\n    return 'fast'\n");
    write(&r, "tests/slow_impl.py", "import pytest\n\n@pytest.fixture\ndef backend():\n    return 'slow'\n");
    write(&r, "tests/conftest.py", "try:\n    from .fast_impl import backend\nexcept ImportError:\n    from .slow_impl import backend\n");
    let t = write(&r, "tests/test_x.py", "def test_x(backend):\n    pass\n");
    let db = FixtureDatabase::new();
    db.scan_workspace(&r);
    println!("E1 {:?}", goto(&db, &t, "backend", "def test_x"));
}

#[test]
fn e1b_type_checking() {
    let (_t, r) = root();
    write(&r, "conftest.py", "import pytest\n\n@pytest.fixture\ndef foo():\n    return 'root'\n");
    write(&r, "tests/__init__.py", "");
    write(&r, "tests/helpers.py", "import pytest\n\n@pytest.fixture\ndef foo():\n    return 'helper'\n");
    write(&r, "tests/conftest.py", "from typing import TYPE_CHECKING\nif TYPE_CHECKING:\n    from .helpers import foo\n");
    let t = write(&r, "tests/test_x.py", "def test_x(foo):\n    pass\n");
    let db = FixtureDatabase::new();
    db.scan_workspace(&r);
    println!("E1b {:?}", goto(&db, &t, "foo", "def test_x"));
}

#[test]
fn e2_redefined_self_param() {
    let (_t, r) = root();
    write(&r, "conftest.py", "import pytest\n\n@pytest.fixture\ndef foo():\n    return 'root'\n");
    let t = write(&r, "tests/test_x.py", "import pytest\n\n@pytest.fixture\ndef foo():\n    return 'first'\n\n@pytest.fixture\ndef foo(foo):\n    return foo + '!'\n\ndef test_x(foo):\n    assert foo == 'root!'\n");
    let db = FixtureDatabase::new();
    db.scan_workspace(&r);
    println!("E2 {:?}", goto(&db, &t, "(foo", "def foo(foo)"));
}

#[test]
fn e2b_import_shadowed_self_param() {
    let (_t, r) = root();
    write(&r, "conftest.py", "import pytest\n\n@pytest.fixture\ndef foo():\n    return 'root'\n");
    write(&r, "tests/__init__.py", "");
    write(&r, "tests/base.py", "import pytest\n\n@pytest.fixture\ndef foo():\n    return 'base'\n");
    let c = write(&r, "tests/conftest.py", "import pytest\nfrom .base import *\n\n@pytest.fixture\ndef foo(foo):\n    return foo + '!'\n");
    write(&r, "tests/test_x.py", "def test_x(foo):\n    assert foo == 'root!'\n");
    let db = FixtureDatabase::new();
    db.scan_workspace(&r);
    println!("E2b {:?}", goto(&db, &c, "(foo", "def foo(foo)"));
}

#[test]
fn e3_skipped_dir_names() {
    let (_t, r) = root();
    write(&r, "tests/conftest.py", "import pytest\n\n@pytest.fixture\ndef cfg():\n    return 'outer'\n");
    write(&r, "tests/env/conftest.py", "import pytest\n\n@pytest.fixture\ndef cfg():\n    return 'inner'\n");
    let t = write(&r, "tests/env/test_env.py", "def test_x(cfg):\n    assert cfg == 'inner'\n");
    let db = FixtureDatabase::new();
    db.scan_workspace(&r);
    // the user opens the test file
    db.analyze_file(t.clone(), &fs::read_to_string(&t).unwrap());
    println!("E3 {:?}", goto(&db, &t, "cfg", "def test_x"));
}

#[test]
fn e4_def_then_import() {
    let (_t, r) = root();
    write(&r, "tests/__init__.py", "");
    write(&r, "tests/mod.py", "import pytest\n\n@pytest.fixture\ndef foo():\n    return 'mod'\n");
    write(&r, "tests/conftest.py", "import pytest\n\n@pytest.fixture\ndef foo():\n    return 'conftest'\n\nfrom .mod import foo\n");
    let t = write(&r, "tests/test_x.py", "def test_x(foo):\n    assert foo == 'mod'\n");
    let db = FixtureDatabase::new();
    db.scan_workspace(&r);
    println!("E4 {:?}", goto(&db, &t, "foo", "def test_x"));
}

#[test]
fn e5_def_in_if_block() {
    let (_t, r) = root();
    write(&r, "conftest.py", "import pytest\n\n@pytest.fixture\ndef foo():\n    return 'root'\n");
    write(&r, "tests/conftest.py", "import pytest\ntry:\n    import numpy\nexcept ImportError:\n    numpy = None\n\nif True:\n    @pytest.fixture\n    def foo():\n        return 'nested'\n");
    let t = write(&r, "tests/test_x.py", "def test_x(foo):\n    assert foo == 'nested'\n");
    let db = FixtureDatabase::new();
    db.scan_workspace(&r);
    println!("E5 {:?}", goto(&db, &t, "foo", "def test_x"));
}

#[test]
fn e6_package_vs_module() {
    let (_t, r) = root();
    write(&r, "tests/__init__.py", "");
    write(&r, "tests/helpers.py", "import pytest\n\n@pytest.fixture\ndef foo():\n    return 'module'\n");
    write(&r, "tests/helpers/__init__.py", "import pytest\n\n@pytest.fixture\ndef foo():\n    return 'package'\n");
    write(&r, "tests/conftest.py", "from .helpers import *\n");
    let t = write(&r, "tests/test_x.py", "def test_x(foo):\n    assert foo == 'package'\n");
    let db = FixtureDatabase::new();
    db.scan_workspace(&r);
    println!("E6 {:?}", goto(&db, &t, "foo", "def test_x"));
}

#[test]
fn e7_test_prefix() {
    let (_t, r) = root();
    write(&r, "conftest.py", "import pytest\n\n@pytest.fixture\ndef foo():\n    return 'root'\n");
    let t = write(&r, "tests/test_x.py", "def testLogin(foo):\n    assert foo\n\nclass TestA:\n    def testIt(self, foo):\n        pass\n");
    let db = FixtureDatabase::new();
    db.scan_workspace(&r);
    println!("E7 {:?}", goto(&db, &t, "foo", "def testLogin"));
}

#[test]
fn e8_indirect_tuple() {
    let (_t, r) = root();
    write(&r, "conftest.py", "import pytest\n\n@pytest.fixture\ndef foo(request):\n    return request.param\n");
    let t = write(&r, "tests/test_x.py", "import pytest\n\n@pytest.mark.parametrize('foo', [1], indirect=('foo',))\ndef test_a(request):\n    pass\n\n@pytest.mark.parametrize(('foo',), [(1,)], indirect=True)\ndef test_b(request):\n    pass\n");
    let db = FixtureDatabase::new();
    db.scan_workspace(&r);
    println!("E8a {:?}", goto(&db, &t, "foo',)", "indirect=("));
    println!("E8b {:?}", goto(&db, &t, "foo", "(('foo',)"));
}

#[test]
fn e9_bom() {
    let (_t, r) = root();
    write(&r, "conftest.py", "\u{feff}import pytest\n\n@pytest.fixture\ndef foo():\n    return 'root'\n");
    let t = write(&r, "tests/test_x.py", "def test_x(foo):\n    pass\n");
    let db = FixtureDatabase::new();
    db.scan_workspace(&r);
    println!("E9 {:?}", goto(&db, &t, "foo", "def test_x"));
}

#[test]
fn e10_parametrize_direct_shadows_fixture() {
    let (_t, r) = root();
    write(&r, "conftest.py", "import pytest\n\n@pytest.fixture\ndef foo():\n    return 'root'\n");
    let t = write(&r, "tests/test_x.py", "import pytest\n\n@pytest.mark.parametrize('foo', [1, 2])\ndef test_x(foo):\n    pass\n");
    let db = FixtureDatabase::new();
    db.scan_workspace(&r);
    println!("E10 {:?}", goto(&db, &t, "foo", "def test_x"));
}

#[test]
fn e11_site_packages_substring() {
    let (_t, r) = root();
    write(&r, "tests/site-packages-compat/conftest.py", "import pytest\n\n@pytest.fixture\ndef foo():\n    return 'sibling'\n");
    let t = write(&r, "tests/other/test_x.py", "def test_x(foo):\n    pass\n");
    let db = FixtureDatabase::new();
    db.scan_workspace(&r);
    println!("E11 {:?}", goto(&db, &t, "foo", "def test_x"));
}

#[test]
fn e12_package_entry_point_marks_whole_package() {
    let (_t, r) = root();
    let sp = r.join(".venv/lib/python3.11/site-packages");
    let di = sp.join("myproj-0.1.0.dist-info");
    fs::create_dir_all(&di).unwrap();
    fs::write(di.join("entry_points.txt"), "[pytest11]\nmyproj = myproj\n").unwrap();
    fs::write(
        di.join("direct_url.json"),
        format!("{{\"url\": \"file://{}\", \"dir_info\": {{\"editable\": true}}}}", r.join("src").display()),
    )
    .unwrap();
    fs::create_dir_all(r.join("src")).unwrap();
    fs::write(sp.join("__editable__.myproj-0.1.0.pth"), format!("{}\n", r.join("src").display())).unwrap();
    write(&r, "src/myproj/__init__.py", "");
    write(&r, "src/myproj/a/conftest.py", "import pytest\n\n@pytest.fixture\ndef foo():\n    return 'a'\n");
    let tb = write(&r, "src/myproj/b/test_b.py", "def test_b(foo):\n    pass\n");
    let t = write(&r, "tests/test_x.py", "def test_x(foo):\n    pass\n");
    let db = FixtureDatabase::new();
    db.scan_workspace(&r);
    println!("E12 sibling {:?}", goto(&db, &tb, "foo", "def test_b"));
    println!("E12 tests {:?}", goto(&db, &t, "foo", "def test_x"));
}
