use pytest_language_server::FixtureDatabase;
use std::fs;
use std::path::{Path, PathBuf};

#[allow(dead_code)]
fn write(root: &Path, rel: &str, content: &str) -> PathBuf {
    let p = root.join(rel);
    fs::create_dir_all(p.parent().unwrap()).unwrap();
    fs::write(&p, content).unwrap();
    p
}

/// go-to-definition with the cursor on the second character of `token`, on the first line
/// of `file` that contains `line_marker`. Returns (file relative to root, 1-based line).
#[allow(dead_code)]
fn goto(db: &FixtureDatabase, root: &Path, file: &Path, token: &str, line_marker: &str) -> Option<(String, usize)> {
    let content = fs::read_to_string(file).unwrap();
    for (i, l) in content.lines().enumerate() {
        if l.contains(line_marker) {
            let col = l.find(token).unwrap();
            return db.find_fixture_definition(file, i as u32, col as u32 + 1).map(|d| {
                (
                    d.file_path.strip_prefix(root).unwrap_or(&d.file_path).to_string_lossy().to_string(),
                    d.line,
                )
            });
        }
    }
    panic!("marker line not found");
}

#[allow(dead_code)]
fn workspace() -> (tempfile::TempDir, PathBuf) {
    let t = tempfile::tempdir().unwrap();
    let r = t.path().canonicalize().unwrap();
    (t, r)
}

#[allow(dead_code)]
const FOO: &str = "import pytest\n\n@pytest.fixture\ndef foo():\n    return 'X'\n";

// FINDING 5: for a self-named parameter (`def foo(foo)`) the resolver excludes only the
// enclosing definition and then falls back to OTHER bindings of the name in the same
// module (an earlier, redefined `def foo`, or a `from .base import *` that the override
// rebinds). Those bindings no longer exist when pytest looks at the module: the parameter
// is served by the next level up.

#[test]
fn self_named_parameter_of_a_redefinition_skips_the_shadowed_first_definition() {
    let (_t, r) = workspace();
    write(&r, "conftest.py", "import pytest\n\n@pytest.fixture\ndef foo():\n    return 'root'\n");
    let t = write(
        &r,
        "tests/test_x.py",
        "import pytest\n\n@pytest.fixture\ndef foo():\n    return 'first'\n\n@pytest.fixture\ndef foo(foo):\n    return foo + '!'\n\ndef test_x(foo):\n    assert foo == 'root!'\n",
    );
    let db = FixtureDatabase::new();
    db.scan_workspace(&r);
    // sanity: the test's own parameter goes to the last definition (line 8)
    assert_eq!(goto(&db, &r, &t, "foo", "def test_x"), Some(("tests/test_x.py".to_string(), 8)));
    // the module attribute `foo` is the second function only; its parameter is the root conftest's foo
    assert_eq!(goto(&db, &r, &t, "(foo", "def foo(foo)"), Some(("conftest.py".to_string(), 4)));
}

#[test]
fn self_named_parameter_of_an_override_skips_the_import_it_rebinds() {
    let (_t, r) = workspace();
    write(&r, "conftest.py", "import pytest\n\n@pytest.fixture\ndef foo():\n    return 'root'\n");
    write(&r, "tests/__init__.py", "");
    write(&r, "tests/base.py", "import pytest\n\n@pytest.fixture\ndef foo():\n    return 'base'\n");
    let c = write(
        &r,
        "tests/conftest.py",
        "import pytest\nfrom .base import *\n\n@pytest.fixture\ndef foo(foo):\n    return foo + '!'\n",
    );
    write(&r, "tests/test_x.py", "def test_x(foo):\n    assert foo == 'root!'\n");
    let db = FixtureDatabase::new();
    db.scan_workspace(&r);
    // `def foo` rebinds the star-imported name: tests.conftest has ONE attribute foo, base.foo
    // is registered nowhere; the parameter is the root conftest's foo
    assert_eq!(goto(&db, &r, &c, "(foo", "def foo(foo)"), Some(("conftest.py".to_string(), 4)));
}
