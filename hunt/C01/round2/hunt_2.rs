use pytest_language_server::FixtureDatabase;
use std::fs;
use std::path::{Path, PathBuf};

#[allow(dead_code)]
fn write(root: &Path, rel: &str, content: &str) -> PathBuf {
    let p = root.join(rel);
    fs::create_dir_all(p.parent().unwrap()).unwrap();
    fs::write(&p, content).unwrap();
    p
}

/// go-to-definition with the cursor on the second character of `token`, on the first line
/// of `file` that contains `line_marker`. Returns (file relative to root, 1-based line).
#[allow(dead_code)]
fn goto(db: &FixtureDatabase, root: &Path, file: &Path, token: &str, line_marker: &str) -> Option<(String, usize)> {
    let content = fs::read_to_string(file).unwrap();
    for (i, l) in content.lines().enumerate() {
        if l.contains(line_marker) {
            let col = l.find(token).unwrap();
            return db.find_fixture_definition(file, i as u32, col as u32 + 1).map(|d| {
                (
                    d.file_path.strip_prefix(root).unwrap_or(&d.file_path).to_string_lossy().to_string(),
                    d.line,
                )
            });
        }
    }
    panic!("marker line not found");
}

#[allow(dead_code)]
fn workspace() -> (tempfile::TempDir, PathBuf) {
    let t = tempfile::tempdir().unwrap();
    let r = t.path().canonicalize().unwrap();
    (t, r)
}

#[allow(dead_code)]
const FOO: &str = "import pytest\n\n@pytest.fixture\ndef foo():\n    return 'X'\n";

// FINDING 2: a pytest11 entry point that names a PACKAGE makes every module below that
// package a "plugin" (scan_plugin_directory), including conftest.py files of its
// sub-directories, whose fixtures then become visible from everywhere in the workspace.

fn editable_workspace_plugin(r: &Path) {
    let sp = r.join(".venv/lib/python3.11/site-packages");
    let di = sp.join("myproj-0.1.0.dist-info");
    fs::create_dir_all(&di).unwrap();
    fs::write(di.join("entry_points.txt"), "[pytest11]\nmyproj = myproj\n").unwrap();
    fs::write(
        di.join("direct_url.json"),
        format!(
            "{{\"url\": \"file://{}\", \"dir_info\": {{\"editable\": true}}}}",
            r.join("src").display()
        ),
    )
    .unwrap();
    fs::create_dir_all(r.join("src")).unwrap();
    fs::write(
        sp.join("__editable__.myproj-0.1.0.pth"),
        format!("{}\n", r.join("src").display()),
    )
    .unwrap();
}

#[test]
fn conftest_of_a_sibling_directory_inside_a_plugin_package_is_not_visible() {
    let (_t, r) = workspace();
    editable_workspace_plugin(&r);
    // The plugin module pytest loads is src/myproj/__init__.py: it defines and imports nothing.
    write(&r, "src/myproj/__init__.py", "");
    write(&r, "src/myproj/a/conftest.py", "import pytest\n\n@pytest.fixture\ndef foo():\n    return 'a'\n");
    let tb = write(&r, "src/myproj/b/test_b.py", "def test_b(foo):\n    pass\n");
    let tx = write(&r, "tests/test_x.py", "def test_x(foo):\n    pass\n");
    let db = FixtureDatabase::new();
    db.scan_workspace(&r);
    // src/myproj/a/conftest.py is a sibling directory's conftest for both usages:
    // pytest reports "fixture 'foo' not found"
    assert_eq!(goto(&db, &r, &tb, "foo", "def test_b"), None, "usage in src/myproj/b");
    assert_eq!(goto(&db, &r, &tx, "foo", "def test_x"), None, "usage in tests/");
}
