use pytest_language_server::FixtureDatabase;
use std::fs;
use std::path::{Path, PathBuf};

#[allow(dead_code)]
fn write(root: &Path, rel: &str, content: &str) -> PathBuf {
    let p = root.join(rel);
    fs::create_dir_all(p.parent().unwrap()).unwrap();
    fs::write(&p, content).unwrap();
    p
}

/// go-to-definition with the cursor on the second character of `token`, on the first line
/// of `file` that contains `line_marker`. Returns (file relative to root, 1-based line).
#[allow(dead_code)]
fn goto(db: &FixtureDatabase, root: &Path, file: &Path, token: &str, line_marker: &str) -> Option<(String, usize)> {
    let content = fs::read_to_string(file).unwrap();
    for (i, l) in content.lines().enumerate() {
        if l.contains(line_marker) {
            let col = l.find(token).unwrap();
            return db.find_fixture_definition(file, i as u32, col as u32 + 1).map(|d| {
                (
                    d.file_path.strip_prefix(root).unwrap_or(&d.file_path).to_string_lossy().to_string(),
                    d.line,
                )
            });
        }
    }
    panic!("marker line not found");
}

#[allow(dead_code)]
fn workspace() -> (tempfile::TempDir, PathBuf) {
    let t = tempfile::tempdir().unwrap();
    let r = t.path().canonicalize().unwrap();
    (t, r)
}

#[allow(dead_code)]
const FOO: &str = "import pytest\n\n@pytest.fixture\ndef foo():\n    return 'X'\n";

// FINDING 4: fixtures defined inside module-level `if` / `else` / `try` / `with` blocks are
// not indexed at all (visit_stmt only looks at top-level statements and class bodies), so
// the file's own / the nearest conftest's definition is skipped.

#[test]
fn fixture_defined_under_a_version_check_in_the_nearest_conftest() {
    let (_t, r) = workspace();
    write(&r, "conftest.py", "import pytest\n\n@pytest.fixture\ndef loop_policy():\n    return 'root'\n");
    write(
        &r,
        "tests/conftest.py",
        "import sys\nimport pytest\n\nif sys.version_info >= (3, 12):\n    @pytest.fixture\n    def loop_policy():\n        return 'new'\nelse:\n    @pytest.fixture\n    def loop_policy():\n        return 'old'\n",
    );
    let t = write(&r, "tests/test_x.py", "def test_x(loop_policy):\n    assert loop_policy != 'root'\n");
    let db = FixtureDatabase::new();
    db.scan_workspace(&r);
    let got = goto(&db, &r, &t, "loop_policy", "def test_x");
    // Whichever branch runs, tests/conftest.py defines loop_policy and shadows the root one
    assert_eq!(got.as_ref().map(|(f, _)| f.as_str()), Some("tests/conftest.py"), "got {:?}", got);
}

#[test]
fn fixture_defined_in_try_else_of_the_same_file() {
    let (_t, r) = workspace();
    let t = write(
        &r,
        "tests/test_x.py",
        "import pytest\n\ntry:\n    import json\nexcept ImportError:\n    json = None\nelse:\n    @pytest.fixture\n    def codec():\n        return json\n\ndef test_x(codec):\n    assert codec\n",
    );
    let db = FixtureDatabase::new();
    db.scan_workspace(&r);
    assert_eq!(
        goto(&db, &r, &t, "codec", "def test_x"),
        Some(("tests/test_x.py".to_string(), 9))
    );
}
