//! C01 hunt 5: a conftest.py that defines the name twice. pytest sees the module attribute, i.e.
//! the LAST definition (the same-file branch already does this); the conftest branch returns the FIRST.
use pytest_language_server::FixtureDatabase;
use std::fs;
use std::path::{Path, PathBuf};

fn mk(files: &[(&str, &str)]) -> (tempfile::TempDir, PathBuf) {
    let dir = tempfile::tempdir().unwrap();
    let root = dir.path().canonicalize().unwrap();
    for (rel, content) in files {
        let p = root.join(rel);
        fs::create_dir_all(p.parent().unwrap()).unwrap();
        fs::write(&p, content).unwrap();
    }
    (dir, root)
}

/// go-to-definition at (0-based line, UTF-16 column) -> "relative/path.py:LINE" (1-based line)
fn goto(db: &FixtureDatabase, root: &Path, rel: &str, line0: u32, col: u32) -> Option<String> {
    db.find_fixture_definition(&root.join(rel), line0, col).map(|d| {
        format!(
            "{}:{}",
            d.file_path.strip_prefix(root).unwrap_or(&d.file_path).display(),
            d.line
        )
    })
}

const FIX: &str = "import pytest\n\n@pytest.fixture\ndef fix():\n    return 1\n";

#[test]
fn conftest_redefinition_last_wins() {
    let (_d, root) = mk(&[
        (
            "conftest.py",
            "import pytest\n\n@pytest.fixture\ndef fix():\n    return 1\n\n@pytest.fixture\ndef fix():\n    return 2\n",
        ),
        ("test_x.py", "def test_x(fix):\n    pass\n"),
    ]);
    let db = FixtureDatabase::new();
    db.scan_workspace(&root);
    assert_eq!(goto(&db, &root, "test_x.py", 0, 11), Some("conftest.py:8".to_string()));
}
