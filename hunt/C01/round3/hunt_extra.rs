use pytest_language_server::FixtureDatabase;
use std::fs;
use std::path::PathBuf;

struct Ws {
    _dir: tempfile::TempDir,
    root: PathBuf,
    db: FixtureDatabase,
}

fn ws(files: &[(&str, &str)]) -> Ws {
    let dir = tempfile::tempdir().unwrap();
    let root = dir.path().canonicalize().unwrap().join("proj");
    fs::create_dir_all(&root).unwrap();
    for (rel, content) in files {
        let p = root.join(rel);
        fs::create_dir_all(p.parent().unwrap()).unwrap();
        fs::write(&p, content).unwrap();
    }
    let db = FixtureDatabase::new();
    db.scan_workspace(&root);
    Ws { _dir: dir, root, db }
}

/// go-to-definition with the cursor `off` columns into the first occurrence of `needle`
/// in file `rel`; answer as (path relative to the workspace, 1-based line)
fn goto(w: &Ws, rel: &str, needle: &str, off: usize) -> Option<(String, usize)> {
    let p = w.root.join(rel);
    let content = fs::read_to_string(&p).unwrap();
    for (i, line) in content.lines().enumerate() {
        if let Some(col) = line.find(needle) {
            return w
                .db
                .find_fixture_definition(&p, i as u32, (col + off) as u32)
                .map(|d| {
                    (
                        d.file_path
                            .strip_prefix(&w.root)
                            .unwrap_or(&d.file_path)
                            .to_string_lossy()
                            .to_string(),
                        d.line,
                    )
                });
        }
    }
    panic!("needle {needle:?} not found in {rel}");
}

fn at(file: &str, line: usize) -> Option<(String, usize)> {
    Some((file.to_string(), line))
}

// NOT counted among the five findings: side observations (see FINDINGS.md, "Also observed").

// tests/ is a package (tests/__init__.py), so pytest (prepend import mode) puts the ROOT on
// sys.path and imports tests/conftest.py as `tests.conftest`; `from helpers import hx` is
// then <root>/helpers.py. tests/helpers.py is only importable as `tests.helpers`.
#[test]
fn absolute_import_inside_a_package_directory() {
    let w = ws(&[
        ("helpers.py", "import pytest\n\n@pytest.fixture\ndef hx():\n    return 'root'\n"),
        ("tests/__init__.py", ""),
        ("tests/helpers.py", "import pytest\n\n@pytest.fixture\ndef hx():\n    return 'tests'\n"),
        ("tests/conftest.py", "from helpers import hx\n"),
        ("tests/test_a.py", "def test_a(hx):\n    pass\n"),
    ]);
    assert_eq!(goto(&w, "tests/test_a.py", "hx", 0), at("helpers.py", 4));
}

// Variant of the known "opening a library file under site-packages makes its fixtures visible
// everywhere": no editor action needed, a conftest in a SIBLING directory importing the
// fixture from a library module (not a pytest11 plugin) is enough.
#[test]
fn library_fixture_imported_by_a_sibling_conftest() {
    let w = ws(&[
        (".venv/lib/python3.12/site-packages/somelib/__init__.py", ""),
        (
            ".venv/lib/python3.12/site-packages/somelib/testing.py",
            "import pytest\n\n@pytest.fixture\ndef lib_fix():\n    return 1\n",
        ),
        ("a/conftest.py", "from somelib.testing import lib_fix\n"),
        ("a/test_a.py", "def test_a(lib_fix):\n    pass\n"),
        ("b/test_b.py", "def test_b(lib_fix):\n    pass\n"),
    ]);
    assert_eq!(
        goto(&w, "a/test_a.py", "lib_fix", 0),
        at(".venv/lib/python3.12/site-packages/somelib/testing.py", 4)
    );
    assert_eq!(goto(&w, "b/test_b.py", "lib_fix", 0), None);
}
