use pytest_language_server::FixtureDatabase;
use std::fs;
use std::path::PathBuf;

struct Ws {
    _dir: tempfile::TempDir,
    root: PathBuf,
    db: FixtureDatabase,
}

fn ws(files: &[(&str, &str)]) -> Ws {
    let dir = tempfile::tempdir().unwrap();
    let root = dir.path().canonicalize().unwrap().join("proj");
    fs::create_dir_all(&root).unwrap();
    for (rel, content) in files {
        let p = root.join(rel);
        fs::create_dir_all(p.parent().unwrap()).unwrap();
        fs::write(&p, content).unwrap();
    }
    let db = FixtureDatabase::new();
    db.scan_workspace(&root);
    Ws { _dir: dir, root, db }
}

/// go-to-definition with the cursor `off` columns into the first occurrence of `needle`
/// in file `rel`; answer as (path relative to the workspace, 1-based line)
fn goto(w: &Ws, rel: &str, needle: &str, off: usize) -> Option<(String, usize)> {
    let p = w.root.join(rel);
    let content = fs::read_to_string(&p).unwrap();
    for (i, line) in content.lines().enumerate() {
        if let Some(col) = line.find(needle) {
            return w
                .db
                .find_fixture_definition(&p, i as u32, (col + off) as u32)
                .map(|d| {
                    (
                        d.file_path
                            .strip_prefix(&w.root)
                            .unwrap_or(&d.file_path)
                            .to_string_lossy()
                            .to_string(),
                        d.line,
                    )
                });
        }
    }
    panic!("needle {needle:?} not found in {rel}");
}

fn at(file: &str, line: usize) -> Option<(String, usize)> {
    Some((file.to_string(), line))
}

// `argnames` of parametrize may be a string OR a sequence of strings, `indirect` may be a bool
// OR a sequence (list or tuple) of names, and both may be passed by keyword.
const CONFTEST: &str = "import pytest\n\n@pytest.fixture\ndef a(request):\n    return request.param\n\n@pytest.fixture\ndef b(request):\n    return request.param\n";

fn check(decorator: &str, needle: &str, off: usize) {
    let test = format!("import pytest\n\n{decorator}\ndef test_x(a, b):\n    pass\n");
    let w = ws(&[("conftest.py", CONFTEST), ("tests/test_a.py", &test)]);
    assert_eq!(
        goto(&w, "tests/test_a.py", needle, off),
        at("conftest.py", 4),
        "{decorator}"
    );
}

#[test]
fn control_string_argnames() {
    check("@pytest.mark.parametrize('a, b', [(1, 2)], indirect=True)", "'a, b'", 1);
    check("@pytest.mark.parametrize('a, b', [(1, 2)], indirect=['a'])", "['a']", 2);
}

#[test]
fn tuple_argnames_indirect_true() {
    check("@pytest.mark.parametrize(('a', 'b'), [(1, 2)], indirect=True)", "('a', 'b')", 2);
}

#[test]
fn list_argnames_indirect_list() {
    check("@pytest.mark.parametrize(['a', 'b'], [(1, 2)], indirect=['a'])", "indirect=['a']", 11);
}

#[test]
fn string_argnames_indirect_tuple() {
    check("@pytest.mark.parametrize('a, b', [(1, 2)], indirect=('a',))", "indirect=('a',)", 11);
}

#[test]
fn argnames_by_keyword() {
    check(
        "@pytest.mark.parametrize(argnames='a, b', argvalues=[(1, 2)], indirect=True)",
        "'a, b'",
        1,
    );
}
