use pytest_language_server::FixtureDatabase;
use std::fs;
use std::path::PathBuf;

struct Ws {
    _dir: tempfile::TempDir,
    root: PathBuf,
    db: FixtureDatabase,
}

fn ws(files: &[(&str, &str)]) -> Ws {
    let dir = tempfile::tempdir().unwrap();
    let root = dir.path().canonicalize().unwrap().join("proj");
    fs::create_dir_all(&root).unwrap();
    for (rel, content) in files {
        let p = root.join(rel);
        fs::create_dir_all(p.parent().unwrap()).unwrap();
        fs::write(&p, content).unwrap();
    }
    let db = FixtureDatabase::new();
    db.scan_workspace(&root);
    Ws { _dir: dir, root, db }
}

/// go-to-definition with the cursor `off` columns into the first occurrence of `needle`
/// in file `rel`; answer as (path relative to the workspace, 1-based line)
fn goto(w: &Ws, rel: &str, needle: &str, off: usize) -> Option<(String, usize)> {
    let p = w.root.join(rel);
    let content = fs::read_to_string(&p).unwrap();
    for (i, line) in content.lines().enumerate() {
        if let Some(col) = line.find(needle) {
            return w
                .db
                .find_fixture_definition(&p, i as u32, (col + off) as u32)
                .map(|d| {
                    (
                        d.file_path
                            .strip_prefix(&w.root)
                            .unwrap_or(&d.file_path)
                            .to_string_lossy()
                            .to_string(),
                        d.line,
                    )
                });
        }
    }
    panic!("needle {needle:?} not found in {rel}");
}

fn at(file: &str, line: usize) -> Option<(String, usize)> {
    Some((file.to_string(), line))
}

// A fixture module redefines `db`; the second definition overrides the fixture of the
// parent conftest and asks for it (`def db(db)`). The module is star-imported by
// tests/conftest.py. The first definition is dead (the name was rebound), so pytest
// injects the root conftest's `db` into the override.
const ROOT_CONFTEST: &str = "import pytest\n\n@pytest.fixture\ndef db():\n    return 'root'\n";
const FIXMOD: &str = "import pytest\n\n@pytest.fixture\ndef db():\n    return 'dead'\n\n@pytest.fixture\ndef db(db):\n    return db + '+override'\n";

#[test]
fn self_named_parameter_in_star_imported_module_goes_outward() {
    let w = ws(&[
        ("conftest.py", ROOT_CONFTEST),
        ("tests/conftest.py", "from fixmod import *\n"),
        ("tests/fixmod.py", FIXMOD),
        ("tests/test_a.py", "def test_a(db):\n    pass\n"),
    ]);
    // sanity: the test gets the live (last) definition of the imported module
    assert_eq!(goto(&w, "tests/test_a.py", "(db)", 1), at("tests/fixmod.py", 8));
    // the override's own parameter: pytest injects conftest.py:4, never the dead fixmod.py:4
    assert_eq!(goto(&w, "tests/fixmod.py", "db(db)", 3), at("conftest.py", 4));
}

#[test]
fn same_through_pytest_plugins_and_explicit_import() {
    for conftest in ["pytest_plugins = ['fixmod']\n", "from fixmod import db\n"] {
        let w = ws(&[
            ("conftest.py", ROOT_CONFTEST),
            ("tests/conftest.py", conftest),
            ("tests/fixmod.py", FIXMOD),
            ("tests/test_a.py", "def test_a(db):\n    pass\n"),
        ]);
        assert_eq!(
            goto(&w, "tests/fixmod.py", "db(db)", 3),
            at("conftest.py", 4),
            "tests/conftest.py = {conftest:?}"
        );
    }
}

#[test]
fn control_same_text_in_a_test_module_skips_the_dead_definition() {
    // the same text in a module that no conftest imports: a9f1cf1 made this right
    let w = ws(&[
        ("conftest.py", ROOT_CONFTEST),
        ("tests/test_fix.py", FIXMOD),
    ]);
    assert_eq!(goto(&w, "tests/test_fix.py", "db(db)", 3), at("conftest.py", 4));
}
