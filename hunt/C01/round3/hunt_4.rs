use pytest_language_server::FixtureDatabase;
use std::fs;
use std::path::PathBuf;

struct Ws {
    _dir: tempfile::TempDir,
    root: PathBuf,
    db: FixtureDatabase,
}

fn ws(files: &[(&str, &str)]) -> Ws {
    let dir = tempfile::tempdir().unwrap();
    let root = dir.path().canonicalize().unwrap().join("proj");
    fs::create_dir_all(&root).unwrap();
    for (rel, content) in files {
        let p = root.join(rel);
        fs::create_dir_all(p.parent().unwrap()).unwrap();
        fs::write(&p, content).unwrap();
    }
    let db = FixtureDatabase::new();
    db.scan_workspace(&root);
    Ws { _dir: dir, root, db }
}

/// go-to-definition with the cursor `off` columns into the first occurrence of `needle`
/// in file `rel`; answer as (path relative to the workspace, 1-based line)
fn goto(w: &Ws, rel: &str, needle: &str, off: usize) -> Option<(String, usize)> {
    let p = w.root.join(rel);
    let content = fs::read_to_string(&p).unwrap();
    for (i, line) in content.lines().enumerate() {
        if let Some(col) = line.find(needle) {
            return w
                .db
                .find_fixture_definition(&p, i as u32, (col + off) as u32)
                .map(|d| {
                    (
                        d.file_path
                            .strip_prefix(&w.root)
                            .unwrap_or(&d.file_path)
                            .to_string_lossy()
                            .to_string(),
                        d.line,
                    )
                });
        }
    }
    panic!("needle {needle:?} not found in {rel}");
}

fn at(file: &str, line: usize) -> Option<(String, usize)> {
    Some((file.to_string(), line))
}

// `pytest_plugins` built in two statements. pytest reads the VALUE of the module attribute
// (conftest.pytest_plugins == ['plug_a', 'plug_b']), so the fixtures of plug_b are registered.
const PLUG_A: &str = "import pytest\n\n@pytest.fixture\ndef fa():\n    return 1\n";
const PLUG_B: &str = "import pytest\n\n@pytest.fixture\ndef fb():\n    return 1\n\n@pytest.fixture\ndef tmp_path():\n    return 'project override'\n";
const BUILTIN: &str = "import pytest\n\n@pytest.fixture\ndef tmp_path():\n    return 'builtin'\n";

fn project(conftest: &str) -> Ws {
    ws(&[
        (".venv/lib/python3.12/site-packages/_pytest/__init__.py", ""),
        (".venv/lib/python3.12/site-packages/_pytest/tmpdir.py", BUILTIN),
        ("conftest.py", conftest),
        ("plug_a.py", PLUG_A),
        ("plug_b.py", PLUG_B),
        ("tests/test_a.py", "def test_a(fa, fb, tmp_path):\n    pass\n"),
    ])
}

#[test]
fn control_single_assignment() {
    let w = project("pytest_plugins = ['plug_a', 'plug_b']\n");
    assert_eq!(goto(&w, "tests/test_a.py", "fa", 0), at("plug_a.py", 4));
    assert_eq!(goto(&w, "tests/test_a.py", "fb", 0), at("plug_b.py", 4));
    assert_eq!(goto(&w, "tests/test_a.py", "tmp_path", 0), at("plug_b.py", 8));
}

#[test]
fn augmented_assignment_empty_answer() {
    let w = project("pytest_plugins = ['plug_a']\npytest_plugins += ['plug_b']\n");
    assert_eq!(goto(&w, "tests/test_a.py", "fa", 0), at("plug_a.py", 4));
    assert_eq!(goto(&w, "tests/test_a.py", "fb", 0), at("plug_b.py", 4));
}

#[test]
fn augmented_assignment_wrong_answer() {
    // the project's override of tmp_path is what pytest injects, not the builtin one
    let w = project("pytest_plugins = ['plug_a']\npytest_plugins += ['plug_b']\n");
    assert_eq!(goto(&w, "tests/test_a.py", "tmp_path", 0), at("plug_b.py", 8));
}

#[test]
fn concatenation() {
    let w = project("pytest_plugins = ['plug_a'] + ['plug_b']\n");
    assert_eq!(goto(&w, "tests/test_a.py", "fa", 0), at("plug_a.py", 4));
    assert_eq!(goto(&w, "tests/test_a.py", "fb", 0), at("plug_b.py", 4));
}
