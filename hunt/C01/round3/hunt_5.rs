use pytest_language_server::FixtureDatabase;
use std::fs;
use std::path::PathBuf;

struct Ws {
    _dir: tempfile::TempDir,
    root: PathBuf,
    db: FixtureDatabase,
}

fn ws(files: &[(&str, &str)]) -> Ws {
    let dir = tempfile::tempdir().unwrap();
    let root = dir.path().canonicalize().unwrap().join("proj");
    fs::create_dir_all(&root).unwrap();
    for (rel, content) in files {
        let p = root.join(rel);
        fs::create_dir_all(p.parent().unwrap()).unwrap();
        fs::write(&p, content).unwrap();
    }
    let db = FixtureDatabase::new();
    db.scan_workspace(&root);
    Ws { _dir: dir, root, db }
}

/// go-to-definition with the cursor `off` columns into the first occurrence of `needle`
/// in file `rel`; answer as (path relative to the workspace, 1-based line)
fn goto(w: &Ws, rel: &str, needle: &str, off: usize) -> Option<(String, usize)> {
    let p = w.root.join(rel);
    let content = fs::read_to_string(&p).unwrap();
    for (i, line) in content.lines().enumerate() {
        if let Some(col) = line.find(needle) {
            return w
                .db
                .find_fixture_definition(&p, i as u32, (col + off) as u32)
                .map(|d| {
                    (
                        d.file_path
                            .strip_prefix(&w.root)
                            .unwrap_or(&d.file_path)
                            .to_string_lossy()
                            .to_string(),
                        d.line,
                    )
                });
        }
    }
    panic!("needle {needle:?} not found in {rel}");
}

fn at(file: &str, line: usize) -> Option<(String, usize)> {
    Some((file.to_string(), line))
}

// "Override a fixture with direct test parametrization" (pytest docs, fixtures how-to):
// a name that a test parametrizes directly is NOT taken from the fixture of that name -
// pytest injects the parameter value and never sets the fixture up.
const CONFTEST: &str = "import pytest\n\n@pytest.fixture\ndef db():\n    return 'fixture'\n\n@pytest.fixture\ndef other():\n    return 1\n";

#[test]
fn directly_parametrized_name_is_not_the_fixture() {
    let w = ws(&[
        ("conftest.py", CONFTEST),
        (
            "tests/test_a.py",
            "import pytest\n\n@pytest.mark.parametrize('db', ['x', 'y'])\ndef test_direct(db, other):\n    assert db in 'xy'\n",
        ),
    ]);
    // control: an ordinary request on the same line
    assert_eq!(goto(&w, "tests/test_a.py", "other)", 0), at("conftest.py", 8));
    // pytest injects 'x' / 'y', no fixture definition: the answer should be empty
    assert_eq!(goto(&w, "tests/test_a.py", "(db,", 1), None);
}

#[test]
fn control_indirect_parametrization_is_the_fixture() {
    let w = ws(&[
        ("conftest.py", CONFTEST),
        (
            "tests/test_a.py",
            "import pytest\n\n@pytest.mark.parametrize('db', ['x', 'y'], indirect=True)\ndef test_indirect(db, other):\n    pass\n",
        ),
    ]);
    assert_eq!(goto(&w, "tests/test_a.py", "(db,", 1), at("conftest.py", 4));
}
