use pytest_language_server::FixtureDatabase;
use std::fs;
use std::path::PathBuf;

struct Ws {
    _dir: tempfile::TempDir,
    root: PathBuf,
    db: FixtureDatabase,
}

fn ws(files: &[(&str, &str)]) -> Ws {
    let dir = tempfile::tempdir().unwrap();
    let root = dir.path().canonicalize().unwrap().join("proj");
    fs::create_dir_all(&root).unwrap();
    for (rel, content) in files {
        let p = root.join(rel);
        fs::create_dir_all(p.parent().unwrap()).unwrap();
        fs::write(&p, content).unwrap();
    }
    let db = FixtureDatabase::new();
    db.scan_workspace(&root);
    Ws { _dir: dir, root, db }
}

/// go-to-definition with the cursor `off` columns into the first occurrence of `needle`
/// in file `rel`; answer as (path relative to the workspace, 1-based line)
fn goto(w: &Ws, rel: &str, needle: &str, off: usize) -> Option<(String, usize)> {
    let p = w.root.join(rel);
    let content = fs::read_to_string(&p).unwrap();
    for (i, line) in content.lines().enumerate() {
        if let Some(col) = line.find(needle) {
            return w
                .db
                .find_fixture_definition(&p, i as u32, (col + off) as u32)
                .map(|d| {
                    (
                        d.file_path
                            .strip_prefix(&w.root)
                            .unwrap_or(&d.file_path)
                            .to_string_lossy()
                            .to_string(),
                        d.line,
                    )
                });
        }
    }
    panic!("needle {needle:?} not found in {rel}");
}

fn at(file: &str, line: usize) -> Option<(String, usize)> {
    Some((file.to_string(), line))
}

// pytest's default `python_functions = test` is a PREFIX: `def testLogin(db)`, `def test(db)`
// and `def testMethod(self, db)` in a Test class are collected and get `db` injected.
const CONFTEST: &str = "import pytest\n\n@pytest.fixture\ndef db():\n    return 1\n";

#[test]
fn camel_case_test_function() {
    let w = ws(&[
        ("conftest.py", CONFTEST),
        ("tests/test_a.py", "def testLogin(db):\n    pass\n"),
    ]);
    assert_eq!(goto(&w, "tests/test_a.py", "(db)", 1), at("conftest.py", 4));
}

#[test]
fn function_called_test() {
    let w = ws(&[
        ("conftest.py", CONFTEST),
        ("tests/test_a.py", "def test(db):\n    pass\n"),
    ]);
    assert_eq!(goto(&w, "tests/test_a.py", "(db)", 1), at("conftest.py", 4));
}

#[test]
fn camel_case_test_method() {
    let w = ws(&[
        ("conftest.py", CONFTEST),
        (
            "tests/test_a.py",
            "class TestLogin:\n    def testOk(self, db):\n        pass\n",
        ),
    ]);
    assert_eq!(goto(&w, "tests/test_a.py", "db)", 0), at("conftest.py", 4));
}

#[test]
fn control_snake_case() {
    let w = ws(&[
        ("conftest.py", CONFTEST),
        ("tests/test_a.py", "def test_login(db):\n    pass\n"),
    ]);
    assert_eq!(goto(&w, "tests/test_a.py", "(db)", 1), at("conftest.py", 4));
}
