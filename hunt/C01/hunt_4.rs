//! C01 hunt 4 (history): a conftest.py gains an import of a module that the initial scan never
//! analysed (didChange/didOpen only run analyze_file on the edited document). The imported module's
//! fixtures stay unknown, so resolution falls through to a farther conftest (or to nothing).
use pytest_language_server::FixtureDatabase;
use std::fs;
use std::path::{Path, PathBuf};

fn mk(files: &[(&str, &str)]) -> (tempfile::TempDir, PathBuf) {
    let dir = tempfile::tempdir().unwrap();
    let root = dir.path().canonicalize().unwrap();
    for (rel, content) in files {
        let p = root.join(rel);
        fs::create_dir_all(p.parent().unwrap()).unwrap();
        fs::write(&p, content).unwrap();
    }
    (dir, root)
}

/// go-to-definition at (0-based line, UTF-16 column) -> "relative/path.py:LINE" (1-based line)
fn goto(db: &FixtureDatabase, root: &Path, rel: &str, line0: u32, col: u32) -> Option<String> {
    db.find_fixture_definition(&root.join(rel), line0, col).map(|d| {
        format!(
            "{}:{}",
            d.file_path.strip_prefix(root).unwrap_or(&d.file_path).display(),
            d.line
        )
    })
}

const FIX: &str = "import pytest\n\n@pytest.fixture\ndef fix():\n    return 1\n";

#[test]
fn conftest_edited_to_import_unscanned_module() {
    let (_d, root) = mk(&[
        ("conftest.py", FIX),
        ("sub/__init__.py", ""),
        ("sub/conftest.py", "\n"),
        ("sub/helpers.py", FIX),
        ("sub/test_x.py", "def test_x(fix):\n    pass\n"),
    ]);
    let db = FixtureDatabase::new();
    db.scan_workspace(&root);
    assert_eq!(goto(&db, &root, "sub/test_x.py", 0, 11), Some("conftest.py:4".to_string()));

    // The user edits and saves sub/conftest.py (disk and buffer agree); the server sees
    // textDocument/didChange, which is exactly `analyze_file(path, text)` (src/main.rs:177).
    let new_text = "from .helpers import *\n";
    fs::write(root.join("sub/conftest.py"), new_text).unwrap();
    db.analyze_file(root.join("sub/conftest.py"), new_text);

    // Nearest conftest now star-imports sub/helpers.py, which defines fix.
    assert_eq!(
        goto(&db, &root, "sub/test_x.py", 0, 11),
        Some("sub/helpers.py:4".to_string())
    );
}

#[test]
fn same_edit_with_no_other_provider_yields_nothing() {
    let (_d, root) = mk(&[
        ("conftest.py", "\n"),
        ("helpers.py", FIX),
        ("test_x.py", "def test_x(fix):\n    pass\n"),
    ]);
    let db = FixtureDatabase::new();
    db.scan_workspace(&root);
    let new_text = "from helpers import fix\n";
    fs::write(root.join("conftest.py"), new_text).unwrap();
    db.analyze_file(root.join("conftest.py"), new_text);
    assert_eq!(goto(&db, &root, "test_x.py", 0, 11), Some("helpers.py:4".to_string()));
}
