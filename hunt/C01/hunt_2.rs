//! C01 hunt 2: `from helpers import *` does not import underscore-prefixed names, nor names
//! left out of `__all__`; the resolver treats every fixture of the module as imported.
use pytest_language_server::FixtureDatabase;
use std::fs;
use std::path::{Path, PathBuf};

fn mk(files: &[(&str, &str)]) -> (tempfile::TempDir, PathBuf) {
    let dir = tempfile::tempdir().unwrap();
    let root = dir.path().canonicalize().unwrap();
    for (rel, content) in files {
        let p = root.join(rel);
        fs::create_dir_all(p.parent().unwrap()).unwrap();
        fs::write(&p, content).unwrap();
    }
    (dir, root)
}

/// go-to-definition at (0-based line, UTF-16 column) -> "relative/path.py:LINE" (1-based line)
fn goto(db: &FixtureDatabase, root: &Path, rel: &str, line0: u32, col: u32) -> Option<String> {
    db.find_fixture_definition(&root.join(rel), line0, col).map(|d| {
        format!(
            "{}:{}",
            d.file_path.strip_prefix(root).unwrap_or(&d.file_path).display(),
            d.line
        )
    })
}

const FIX: &str = "import pytest\n\n@pytest.fixture\ndef fix():\n    return 1\n";

#[test]
fn star_import_skips_underscore_functions() {
    let (_d, root) = mk(&[
        ("conftest.py", "from helpers import *\n"),
        (
            "helpers.py",
            "import pytest\n\n@pytest.fixture(name=\"db\")\ndef _db():\n    return 1\n\n@pytest.fixture\ndef _priv():\n    return 1\n",
        ),
        ("test_x.py", "def test_x(db, _priv):\n    pass\n"),
    ]);
    let db = FixtureDatabase::new();
    db.scan_workspace(&root);
    // Neither `_db` nor `_priv` reaches the conftest namespace: pytest reports
    // "fixture 'db' not found" / "fixture '_priv' not found".
    assert_eq!(goto(&db, &root, "test_x.py", 0, 11), None, "db");
    assert_eq!(goto(&db, &root, "test_x.py", 0, 15), None, "_priv");
}

#[test]
fn star_import_respects_dunder_all_and_falls_through_to_parent() {
    let (_d, root) = mk(&[
        ("conftest.py", FIX),
        ("sub/conftest.py", "from .helpers import *\n"),
        ("sub/__init__.py", ""),
        (
            "sub/helpers.py",
            "import pytest\n__all__ = [\"other\"]\n\n@pytest.fixture\ndef fix():\n    return 1\n\n@pytest.fixture\ndef other():\n    return 1\n",
        ),
        ("sub/test_x.py", "def test_x(fix):\n    pass\n"),
    ]);
    let db = FixtureDatabase::new();
    db.scan_workspace(&root);
    // helpers.fix is not exported, so pytest injects the root conftest's fix.
    assert_eq!(goto(&db, &root, "sub/test_x.py", 0, 11), Some("conftest.py:4".to_string()));
}
