//! C01 hunt 1: two star-imports in one conftest.py that both carry the name.
//! Python binds the name to the LAST import; the resolver returns the FIRST.
use pytest_language_server::FixtureDatabase;
use std::fs;
use std::path::{Path, PathBuf};

fn mk(files: &[(&str, &str)]) -> (tempfile::TempDir, PathBuf) {
    let dir = tempfile::tempdir().unwrap();
    let root = dir.path().canonicalize().unwrap();
    for (rel, content) in files {
        let p = root.join(rel);
        fs::create_dir_all(p.parent().unwrap()).unwrap();
        fs::write(&p, content).unwrap();
    }
    (dir, root)
}

/// go-to-definition at (0-based line, UTF-16 column) -> "relative/path.py:LINE" (1-based line)
fn goto(db: &FixtureDatabase, root: &Path, rel: &str, line0: u32, col: u32) -> Option<String> {
    db.find_fixture_definition(&root.join(rel), line0, col).map(|d| {
        format!(
            "{}:{}",
            d.file_path.strip_prefix(root).unwrap_or(&d.file_path).display(),
            d.line
        )
    })
}

const FIX: &str = "import pytest\n\n@pytest.fixture\ndef fix():\n    return 1\n";

#[test]
fn later_star_import_wins() {
    let (_d, root) = mk(&[
        ("conftest.py", "from a import *\nfrom b import *\n"),
        ("a.py", FIX),
        ("b.py", FIX),
        ("test_x.py", "def test_x(fix):\n    pass\n"),
    ]);
    let db = FixtureDatabase::new();
    db.scan_workspace(&root);
    // conftest namespace: `fix` is b.fix (the later `from b import *` rebinds it)
    assert_eq!(goto(&db, &root, "test_x.py", 0, 11), Some("b.py:4".to_string()));
}

#[test]
fn later_explicit_import_wins() {
    let (_d, root) = mk(&[
        ("conftest.py", "from a import fix\nfrom b import fix\n"),
        ("a.py", FIX),
        ("b.py", FIX),
        ("test_x.py", "def test_x(fix):\n    pass\n"),
    ]);
    let db = FixtureDatabase::new();
    db.scan_workspace(&root);
    assert_eq!(goto(&db, &root, "test_x.py", 0, 11), Some("b.py:4".to_string()));
}
