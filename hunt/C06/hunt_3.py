#!/usr/bin/env python3
"""hunt_3 (C06): a didOpen that arrives while the background workspace scan is still
running is later overwritten / duplicated by the scan.

initialize spawns the scan in the background and returns at once, so an editor's first
didOpen normally races with it. The scan analyses every file with `analyze_file_fresh`
(no cleanup of previous definitions, text read from DISK):
  * the definitions recorded by didOpen stay, the scan appends the disk ones
    -> duplicated fixture / stale fixture of a version the editor never had open,
  * usages, undeclared list and the cached text are replaced by the DISK version although
    the open document is newer.

Run:  python3 hunt_3.py      (needs target/debug/pytest-language-server)
"""
import os
import sys
import tempfile

from hunt_lsp import Server, uri

N_FILLER = int(os.environ.get("N_FILLER", "4000"))  # size of the workspace (scan duration)

DISK = "import pytest\n\n\n@pytest.fixture\ndef disk_fx():\n    return 1\n"
BUFFER = "import pytest\n\n\n@pytest.fixture\ndef buffer_fx():\n    return 1\n"  # unsaved rename


def symbols(srv):
    res = srv.request("workspace/symbol", {"query": "_fx"}) or []
    return sorted(s["name"] for s in res)


def run(open_text, label):
    root = os.path.realpath(tempfile.mkdtemp(prefix="hunt3_"))
    for i in range(N_FILLER):
        with open(os.path.join(root, "test_filler_%04d.py" % i), "w") as f:
            f.write("def test_f():\n    pass\n")
    conftest = os.path.join(root, "conftest.py")
    with open(conftest, "w") as f:
        f.write(DISK)

    srv = Server()
    # initialize, then (after its response, as the protocol requires) initialized + didOpen
    # at once, like an editor restoring a session
    srv.request("initialize", {
        "processId": None, "rootUri": uri(root), "capabilities": {},
        "workspaceFolders": [{"uri": uri(root), "name": "ws"}]})
    srv.notify("initialized", {})
    srv.notify("textDocument/didOpen", {"textDocument": {
        "uri": uri(conftest), "languageId": "python", "version": 1, "text": open_text}})
    srv.wait_log("Workspace scan complete")
    got = symbols(srv)
    srv.close()

    # oracle: a server that is opened on the same document AFTER its scan finished
    srv = Server()
    srv.request("initialize", {
        "processId": None, "rootUri": uri(root), "capabilities": {},
        "workspaceFolders": [{"uri": uri(root), "name": "ws"}]})
    srv.notify("initialized", {})
    srv.wait_log("Workspace scan complete")
    srv.notify("textDocument/didOpen", {"textDocument": {
        "uri": uri(conftest), "languageId": "python", "version": 1, "text": open_text}})
    want = symbols(srv)
    srv.close()

    ok = got == want
    print("[%s] open-during-scan: %s   open-after-scan: %s   %s"
          % (label, got, want, "ok" if ok else "VIOLATION"))
    return ok


if __name__ == "__main__":
    a = run(DISK, "identical text ")
    b = run(BUFFER, "unsaved rename ")
    sys.exit(0 if (a and b) else 1)
