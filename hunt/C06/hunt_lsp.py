"""Minimal LSP stdio client shared by hunt_3.py / hunt_4.py (drives the real binary)."""
import json
import os
import queue
import subprocess
import threading
import time

BIN = os.path.join(os.path.dirname(os.path.abspath(__file__)), "target/debug/pytest-language-server")


class Server:
    def __init__(self):
        self.p = subprocess.Popen([BIN], stdin=subprocess.PIPE, stdout=subprocess.PIPE,
                                  stderr=subprocess.DEVNULL)
        self.q = queue.Queue()
        self.next_id = 0
        threading.Thread(target=self._reader, daemon=True).start()

    def _reader(self):
        out = self.p.stdout
        while True:
            length = None
            while True:
                line = out.readline()
                if not line:
                    return
                line = line.strip()
                if not line:
                    break
                if line.lower().startswith(b"content-length:"):
                    length = int(line.split(b":")[1])
            body = out.read(length)
            self.q.put(json.loads(body))

    def _send(self, msg):
        data = json.dumps(msg).encode()
        self.p.stdin.write(b"Content-Length: %d\r\n\r\n" % len(data) + data)
        self.p.stdin.flush()

    def notify(self, method, params):
        self._send({"jsonrpc": "2.0", "method": method, "params": params})

    def request_nowait(self, method, params):
        self.next_id += 1
        self._send({"jsonrpc": "2.0", "id": self.next_id, "method": method, "params": params})
        return self.next_id

    def wait(self, pred, timeout=60):
        """Pump messages (answering server->client requests) until pred(msg) is true."""
        end = time.time() + timeout
        while time.time() < end:
            try:
                m = self.q.get(timeout=0.2)
            except queue.Empty:
                continue
            if "method" in m and "id" in m:  # server -> client request
                self._send({"jsonrpc": "2.0", "id": m["id"], "result": None})
                continue
            if pred(m):
                return m
        raise TimeoutError

    def request(self, method, params, timeout=60):
        i = self.request_nowait(method, params)
        return self.wait(lambda m: m.get("id") == i and "method" not in m, timeout).get("result")

    def wait_log(self, text, timeout=120):
        self.wait(lambda m: m.get("method") == "window/logMessage"
                  and text in m["params"]["message"], timeout)

    def close(self):
        try:
            self.request("shutdown", None, timeout=5)
        except Exception:
            pass
        self.p.kill()


def uri(path):
    return "file://" + path
