//! hunt_5 (C06, adjacent: involves didClose): closing a document whose buffer was never
//! saved leaves the index of the discarded buffer in place for ever.
//!
//! `did_close` only calls `cleanup_file_cache` (src/fixtures/mod.rs:308), which drops the
//! cached TEXT but keeps definitions / usages "because they are cleaned up on the next
//! analyze_file call" -- there is no next call for a closed file. From then on the text is
//! read from disk while the index describes the discarded buffer.
//!
//! Second test (observation, not counted as a finding): while a document is syntactically
//! invalid its usages stay in effect, but `find_containing_function` (used for
//! callHierarchy/incomingCalls of fixtures in OTHER files) parses the current, invalid text
//! and answers None, so the caller is reported as "<unknown>".
use pytest_language_server::FixtureDatabase;
use std::fs;

const DISK: &str = "import pytest\n\n\n@pytest.fixture\ndef kept():\n    return 1\n";
const BUFFER: &str = "import pytest\n\n\n@pytest.fixture\ndef kept():\n    return 1\n\n\n@pytest.fixture\ndef discarded():\n    return 2\n";
const TEST: &str = "def test_a(kept, discarded):\n    pass\n";

#[test]
fn close_without_saving_keeps_discarded_buffer_indexed() {
    let dir = tempfile::tempdir().unwrap();
    let root = dir.path().canonicalize().unwrap();
    let conftest = root.join("conftest.py");
    let test = root.join("test_a.py");
    fs::write(&conftest, DISK).unwrap();
    fs::write(&test, TEST).unwrap();

    let db = FixtureDatabase::new();
    db.scan_workspace(&root);
    db.analyze_file(conftest.clone(), DISK); // didOpen
    db.analyze_file(conftest.clone(), BUFFER); // didChange (never saved)
    db.cleanup_file_cache(&conftest); // didClose -> editor discards the buffer

    let fresh = FixtureDatabase::new();
    fresh.scan_workspace(&root);

    // cursor on `discarded` in `def test_a(kept, discarded):`
    let h = db.find_fixture_definition(&test, 0, 18).map(|d| (d.name, d.line));
    let f = fresh.find_fixture_definition(&test, 0, 18).map(|d| (d.name, d.line));
    println!("history server: {:?}\nfresh server  : {:?}", h, f);
    println!(
        "conftest.py on disk has {} lines",
        fs::read_to_string(&conftest).unwrap().lines().count()
    );
    assert_eq!(h, f, "definition of a discarded buffer is still served after didClose");
}

#[test]
fn observation_caller_unknown_while_user_file_is_invalid() {
    let dir = tempfile::tempdir().unwrap();
    let root = dir.path().canonicalize().unwrap();
    let conftest = root.join("conftest.py");
    let test = root.join("test_a.py");
    fs::write(&conftest, DISK).unwrap();
    let valid = "def test_a(kept):\n    pass\n";
    fs::write(&test, valid).unwrap();

    let db = FixtureDatabase::new();
    db.scan_workspace(&root);
    db.analyze_file(test.clone(), valid);
    let before = db.find_containing_function(&test, 1);
    db.analyze_file(test.clone(), "def test_a(kept):\n    pass\n\ndef broken(:\n");
    // the usage of the last valid version is still in effect ...
    assert_eq!(db.find_fixture_references("kept").len(), 1);
    // ... but its caller can no longer be named
    let after = db.find_containing_function(&test, 1);
    println!("caller before: {:?}   caller while invalid: {:?}", before, after);
    assert_eq!(before, after);
}
