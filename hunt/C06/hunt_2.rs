//! hunt_2 (C06): the import graph is only followed by the initial workspace scan.
//!
//! (a) an edit that ADDS `from .helpers import *` (or `pytest_plugins = [...]`) to a
//!     conftest does not analyse helpers.py, so the fixtures never appear; a fresh server
//!     on the same contents resolves them.
//! (b) an edit that REMOVES the import leaves the definitions of helpers.py behind in
//!     `definitions` / `file_definitions` (workspace/symbol iterates `definitions`);
//!     a fresh server never analyses helpers.py.
use pytest_language_server::FixtureDatabase;
use std::fs;
use std::path::Path;

const HELPERS: &str = "import pytest\n\n\n@pytest.fixture\ndef helper_fx():\n    return 1\n";
const TEST: &str = "def test_a(helper_fx):\n    pass\n";
const CONFTEST_PLAIN: &str = "import pytest\n";
const CONFTEST_STAR: &str = "import pytest\nfrom .helpers import *\n";
const CONFTEST_PLUGINS: &str = "import pytest\npytest_plugins = [\"helpers\"]\n";

fn write_ws(root: &Path, conftest: &str) {
    fs::write(root.join("conftest.py"), conftest).unwrap();
    fs::write(root.join("helpers.py"), HELPERS).unwrap();
    fs::write(root.join("test_a.py"), TEST).unwrap();
}

fn goto(db: &FixtureDatabase, root: &Path) -> Option<String> {
    db.find_fixture_definition(&root.join("test_a.py"), 0, 12)
        .map(|d| format!("{}:{}", d.file_path.file_name().unwrap().to_string_lossy(), d.line))
}

fn symbols(db: &FixtureDatabase) -> Vec<String> {
    // what workspace/symbol enumerates
    let mut v: Vec<String> = db
        .definitions
        .iter()
        .flat_map(|e| e.value().iter().map(|d| d.name.clone()).collect::<Vec<_>>())
        .collect();
    v.sort();
    v
}

fn added_import(new_conftest: &str) {
    let dir = tempfile::tempdir().unwrap();
    let root = dir.path().canonicalize().unwrap();
    write_ws(&root, CONFTEST_PLAIN);

    let db = FixtureDatabase::new();
    db.scan_workspace(&root);
    // didChange of conftest.py (also saved, so that disk == latest version)
    fs::write(root.join("conftest.py"), new_conftest).unwrap();
    db.analyze_file(root.join("conftest.py"), new_conftest);

    let fresh = FixtureDatabase::new();
    fresh.scan_workspace(&root);

    let h = goto(&db, &root);
    let f = goto(&fresh, &root);
    println!("history server: {:?}\nfresh server  : {:?}", h, f);
    assert_eq!(h, f, "go-to-definition differs from a fresh server");
}

#[test]
fn a1_star_import_added_by_edit() {
    added_import(CONFTEST_STAR);
}

#[test]
fn a2_pytest_plugins_added_by_edit() {
    added_import(CONFTEST_PLUGINS);
}

#[test]
fn b_import_removed_by_edit_leaves_orphans() {
    let dir = tempfile::tempdir().unwrap();
    let root = dir.path().canonicalize().unwrap();
    write_ws(&root, CONFTEST_STAR);

    let db = FixtureDatabase::new();
    db.scan_workspace(&root);
    fs::write(root.join("conftest.py"), CONFTEST_PLAIN).unwrap();
    db.analyze_file(root.join("conftest.py"), CONFTEST_PLAIN);

    let fresh = FixtureDatabase::new();
    fresh.scan_workspace(&root);

    println!("history symbols: {:?}\nfresh symbols  : {:?}", symbols(&db), symbols(&fresh));
    assert_eq!(goto(&db, &root), goto(&fresh, &root));
    assert_eq!(
        symbols(&db),
        symbols(&fresh),
        "workspace symbols differ from a fresh server (orphan definitions)"
    );
}
