//! hunt_1 (C06): re-sending IDENTICAL text for a plugin / site-packages file changes
//! which definition a usage elsewhere resolves to.
//!
//! Two third-party plugin modules define a fixture with the same name. The resolver
//! (priority 3 "plugin" and priority 4 "third-party") returns the FIRST matching entry of
//! `definitions[name]`, i.e. it breaks the tie by registration order. Re-analysing a file
//! removes its definitions and appends them at the end of the vector, so the tie-break
//! flips after a didOpen of the file with unchanged text (exactly what an editor sends
//! right after "go to definition" opened the plugin file).
use pytest_language_server::FixtureDatabase;
use std::fs;
use std::path::{Path, PathBuf};

const PLUGIN_A: &str = "import pytest\n\n\n@pytest.fixture\ndef shared():\n    return \"a\"\n";
const PLUGIN_B: &str = "import pytest\n\n\n@pytest.fixture\ndef shared():\n    return \"b\"\n";
const TEST: &str = "def test_x(shared):\n    pass\n";

fn build(root: &Path) -> PathBuf {
    let sp = root.join(".venv/lib/python3.11/site-packages");
    // pytest's own package is always scanned (scan_pytest_internal_fixtures)
    fs::create_dir_all(sp.join("_pytest")).unwrap();
    fs::write(sp.join("_pytest/__init__.py"), "").unwrap();
    fs::write(sp.join("_pytest/plug_a.py"), PLUGIN_A).unwrap();
    fs::write(sp.join("_pytest/plug_b.py"), PLUGIN_B).unwrap();
    fs::write(root.join("test_x.py"), TEST).unwrap();
    root.join("test_x.py").canonicalize().unwrap()
}

fn resolve(db: &FixtureDatabase, test: &Path) -> PathBuf {
    // cursor on `shared` in `def test_x(shared):`
    db.find_fixture_definition(test, 0, 12)
        .expect("usage must resolve")
        .file_path
}

#[test]
fn identical_text_resend_must_not_change_resolution() {
    let dir = tempfile::tempdir().unwrap();
    let root = dir.path().canonicalize().unwrap();
    let test = build(&root);

    // history server
    let db = FixtureDatabase::new();
    db.scan_workspace(&root);
    let before = resolve(&db, &test);

    // didOpen of the file the definition lives in, with the very same text
    let text = fs::read_to_string(&before).unwrap();
    db.analyze_file(before.clone(), &text);
    let after = resolve(&db, &test);

    // fresh server on the (unchanged) contents
    let fresh = FixtureDatabase::new();
    fresh.scan_workspace(&root);
    let fresh_answer = resolve(&fresh, &test);

    println!("before re-send : {:?}", before);
    println!("after  re-send : {:?}", after);
    println!("fresh server   : {:?}", fresh_answer);
    assert_eq!(before, fresh_answer, "fresh scan is deterministic here");
    assert_eq!(
        after, fresh_answer,
        "re-sending identical text changed the go-to-definition answer"
    );
}
