#!/usr/bin/env python3
"""hunt_4 (C06): didChange carrying more than one full-text content change.

LSP: "if there are two content changes c1 and c2 for a document in state S then c1 moves
the document from S to S' and c2 from S' to S''" -- with full-text sync the LAST element
is the document's new content. `did_change` in src/main.rs analyses
`params.content_changes.first()` and drops the rest, so the index keeps a superseded
version (old fixture name, old positions) until the next edit.

Run:  python3 hunt_4.py
"""
import os
import sys
import tempfile

from hunt_lsp import Server, uri

V1 = "import pytest\n\n\n@pytest.fixture\ndef v1_fx():\n    return 1\n"
V2 = "import pytest\n\n\n@pytest.fixture\ndef v2_fx():\n    return 1\n"
V3 = "import pytest\n\n\n\n\n@pytest.fixture\ndef v3_fx():\n    return 1\n"


def start(root):
    srv = Server()
    srv.request("initialize", {
        "processId": None, "rootUri": uri(root), "capabilities": {},
        "workspaceFolders": [{"uri": uri(root), "name": "ws"}]})
    srv.notify("initialized", {})
    srv.wait_log("Workspace scan complete")
    return srv


def symbols(srv):
    res = srv.request("workspace/symbol", {"query": "_fx"}) or []
    return sorted("%s@%d" % (s["name"], s["location"]["range"]["start"]["line"]) for s in res)


if __name__ == "__main__":
    root = os.path.realpath(tempfile.mkdtemp(prefix="hunt4_"))
    conftest = os.path.join(root, "conftest.py")
    with open(conftest, "w") as f:
        f.write(V1)

    srv = start(root)
    srv.notify("textDocument/didOpen", {"textDocument": {
        "uri": uri(conftest), "languageId": "python", "version": 1, "text": V1}})
    # one notification, two full-text events: S -> V2 -> V3
    srv.notify("textDocument/didChange", {
        "textDocument": {"uri": uri(conftest), "version": 3},
        "contentChanges": [{"text": V2}, {"text": V3}]})
    got = symbols(srv)
    srv.close()

    # oracle: fresh server on the latest content
    with open(conftest, "w") as f:
        f.write(V3)
    srv = start(root)
    srv.notify("textDocument/didOpen", {"textDocument": {
        "uri": uri(conftest), "languageId": "python", "version": 1, "text": V3}})
    want = symbols(srv)
    srv.close()

    print("after didChange([V2, V3]): %s" % got)
    print("fresh server on V3       : %s" % want)
    if got != want:
        print("VIOLATION: the index holds a superseded version")
        sys.exit(1)
