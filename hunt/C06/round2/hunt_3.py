#!/usr/bin/env python3
"""hunt_3 (real binary): didOpen of conftest.py with an unparsable dirty buffer right after
`initialize` (what an editor does for its restored buffers) beats the workspace walk; the walk
then skips the open document, so the valid file on disk is never indexed and `fx` cannot be
resolved from tests/test_a.py until the user repairs the buffer.

The control run opens the same buffer after the scan has finished. Exit code 1 when the two
answers differ. N_FILLER files only make the walk take a few milliseconds longer.
"""
import json, os, subprocess, sys, tempfile, time

HERE = os.path.dirname(os.path.abspath(__file__))
BIN = os.path.join(HERE, "target", "debug", "pytest-language-server")
N_FILLER = int(os.environ.get("N_FILLER", "3000"))

ON_DISK = "import pytest\n\n\n@pytest.fixture\ndef fx():\n    return 1\n"
BUFFER = ON_DISK + "\n\n@pytest.fixture\ndef other(:\n"
TEST = "def test_a(fx):\n    pass\n"


class Client:
    def __init__(self):
        self.p = subprocess.Popen([BIN], stdin=subprocess.PIPE, stdout=subprocess.PIPE,
                                  stderr=subprocess.DEVNULL)
        self.id = 0
        self.scan_done = False

    def send(self, msg):
        body = json.dumps(msg).encode()
        self.p.stdin.write(b"Content-Length: %d\r\n\r\n" % len(body) + body)
        self.p.stdin.flush()

    def read(self):
        n = None
        while True:
            line = self.p.stdout.readline().strip()
            if not line:
                break
            k, v = line.split(b":", 1)
            if k.lower() == b"content-length":
                n = int(v)
        m = json.loads(self.p.stdout.read(n))
        if "id" in m and "method" in m:
            self.send({"jsonrpc": "2.0", "id": m["id"], "result": None})
        if m.get("method") == "window/logMessage" and "Workspace scan complete" in m["params"]["message"]:
            self.scan_done = True
        return m

    def request(self, method, params):
        self.id += 1
        self.send({"jsonrpc": "2.0", "id": self.id, "method": method, "params": params})
        while True:
            m = self.read()
            if m.get("id") == self.id and "method" not in m:
                return m.get("result")

    def notify(self, method, params):
        self.send({"jsonrpc": "2.0", "method": method, "params": params})

    def wait_scan(self):
        while not self.scan_done:
            self.read()


def make_ws():
    d = os.path.realpath(tempfile.mkdtemp(prefix="hunt3_"))
    os.makedirs(os.path.join(d, "tests"))
    open(os.path.join(d, "conftest.py"), "w").write(ON_DISK)
    open(os.path.join(d, "tests", "test_a.py"), "w").write(TEST)
    for i in range(N_FILLER):
        sub = os.path.join(d, "filler", "d%03d" % (i // 100))
        os.makedirs(sub, exist_ok=True)
        open(os.path.join(sub, "test_f%05d.py" % i), "w").write("def test_f():\n    pass\n")
    return d


def run(open_first):
    root = make_ws()
    c = Client()
    uri = "file://" + os.path.join(root, "conftest.py")
    did_open = {"textDocument": {"uri": uri, "languageId": "python", "version": 1, "text": BUFFER}}
    c.request("initialize", {"processId": None, "rootUri": "file://" + root, "capabilities": {}})
    c.notify("initialized", {})
    if open_first:
        c.notify("textDocument/didOpen", did_open)
        c.wait_scan()
    else:
        c.wait_scan()
        c.notify("textDocument/didOpen", did_open)
    time.sleep(0.3)
    res = c.request("textDocument/definition",
                    {"textDocument": {"uri": "file://" + os.path.join(root, "tests", "test_a.py")},
                     "position": {"line": 0, "character": 11}})
    c.p.kill()
    if res is None:
        return None
    return (os.path.relpath(res["uri"][len("file://"):], root), res["range"]["start"]["line"])


control = run(open_first=False)
early = run(open_first=True)
print("go-to-definition of `fx` in tests/test_a.py (conftest.py open with an unparsable buffer)")
print("  didOpen after the scan          :", control)
print("  didOpen right after initialize  :", early)
if control != early:
    print("DIFFERENT: the last valid version of conftest.py (the file on disk) is not in effect")
    sys.exit(1)
print("same")
