//! hunt_2: plugin status is propagated along a plugin module's imports only by the
//! workspace scan, never by an edit.
//!
//! Workspace with an in-tree editable install whose pytest11 entry point is
//! `myplug.plugin` (src/myplug/plugin.py). src/myplug/more.py defines `extra_fx` and is
//! imported by nobody at first.
//!
//! History: plugin.py v1 -> v2 adds `from .more import *`; then tests/test_a.py is
//! changed (last) to a version whose body uses `extra_fx` without declaring it.
//!
//! Fresh server on the final contents: more.py is a plugin module (is_plugin = true), the
//! completion item for extra_fx is tagged [plugin], and test_a.py gets an
//! undeclared-fixture finding. Server with the history: is_plugin = false, no finding.

use pytest_language_server::FixtureDatabase;
use std::fs;
use std::path::Path;

const PLUGIN_V1: &str = "import pytest\n\n\n@pytest.fixture\ndef base_fx():\n    return 1\n";
const PLUGIN_V2: &str =
    "import pytest\nfrom .more import *\n\n\n@pytest.fixture\ndef base_fx():\n    return 1\n";
const MORE: &str = "import pytest\n\n\n@pytest.fixture\ndef extra_fx():\n    return 2\n";
const TEST_V1: &str = "def test_a(base_fx):\n    pass\n";
const TEST_V2: &str = "def test_a(base_fx):\n    assert extra_fx\n";

fn make_workspace(root: &Path, plugin: &str, test: &str) {
    let src = root.join("src");
    fs::create_dir_all(src.join("myplug")).unwrap();
    fs::write(src.join("myplug/__init__.py"), "").unwrap();
    fs::write(src.join("myplug/plugin.py"), plugin).unwrap();
    fs::write(src.join("myplug/more.py"), MORE).unwrap();
    fs::create_dir_all(root.join("tests")).unwrap();
    fs::write(root.join("tests/test_a.py"), test).unwrap();

    let sp = root.join(".venv/lib/python3.12/site-packages");
    let dist = sp.join("myplug-0.1.0.dist-info");
    fs::create_dir_all(&dist).unwrap();
    fs::write(
        dist.join("direct_url.json"),
        format!(
            "{{\"url\": \"file://{}\", \"dir_info\": {{\"editable\": true}}}}",
            src.display()
        ),
    )
    .unwrap();
    fs::write(
        dist.join("entry_points.txt"),
        "[pytest11]\nmyplug = myplug.plugin\n",
    )
    .unwrap();
    fs::write(
        sp.join("__editable__.myplug-0.1.0.pth"),
        format!("{}\n", src.display()),
    )
    .unwrap();
}

fn observe(db: &FixtureDatabase, root: &Path) -> (Option<bool>, Vec<String>, Option<String>) {
    let test = root.join("tests/test_a.py");
    let extra_is_plugin = db
        .get_available_fixtures(&test)
        .into_iter()
        .find(|d| d.name == "extra_fx")
        .map(|d| d.is_plugin);
    let undeclared: Vec<String> = db
        .get_undeclared_fixtures(&test)
        .into_iter()
        .map(|u| format!("{}@{}:{}", u.name, u.line, u.start_char))
        .collect();
    // go-to-definition on `base_fx` in the signature still works in both (sanity)
    let goto = db
        .find_fixture_definition(&test, 0, 12)
        .map(|d| d.name);
    (extra_is_plugin, undeclared, goto)
}

#[test]
fn plugin_status_of_a_module_an_edit_starts_importing() {
    // --- server with a history -------------------------------------------------------
    let tmp = tempfile::tempdir().unwrap();
    let root = tmp.path().canonicalize().unwrap();
    make_workspace(&root, PLUGIN_V1, TEST_V1);
    let hist = FixtureDatabase::new();
    hist.scan_workspace(&root);

    let plugin = root.join("src/myplug/plugin.py");
    let test = root.join("tests/test_a.py");
    hist.document_opened(&plugin);
    hist.analyze_file(plugin.clone(), PLUGIN_V1); // didOpen
    hist.analyze_file(plugin.clone(), PLUGIN_V2); // didChange
    hist.document_opened(&test);
    hist.analyze_file(test.clone(), TEST_V1); // didOpen
    hist.analyze_file(test.clone(), TEST_V2); // didChange (last)
    let got = observe(&hist, &root);

    // --- fresh server on the final contents, test_a.py analysed last --------------------
    let tmp2 = tempfile::tempdir().unwrap();
    let root2 = tmp2.path().canonicalize().unwrap();
    make_workspace(&root2, PLUGIN_V2, TEST_V2);
    let fresh = FixtureDatabase::new();
    fresh.scan_workspace(&root2);
    let test2 = root2.join("tests/test_a.py");
    fresh.document_opened(&test2);
    fresh.analyze_file(test2.clone(), TEST_V2);
    let expected = observe(&fresh, &root2);

    println!("fresh server (extra_fx.is_plugin, undeclared in test_a.py, goto): {:?}", expected);
    println!("with history (extra_fx.is_plugin, undeclared in test_a.py, goto): {:?}", got);

    assert_eq!(expected.0, Some(true), "sanity: fresh server marks more.py as a plugin module");
    assert_eq!(got, expected);
}
