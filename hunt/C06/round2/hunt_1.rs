//! hunt_1: the undeclared-fixture findings of the document changed last are computed
//! BEFORE the modules that this very edit starts importing are indexed.
//!
//! History: conftest.py v1 (no plugin import) -> v2 adds `pytest_plugins = ["thirdlib.fixtures"]`
//! (a module in the venv's site-packages that the scan never reached) and a fixture whose
//! body uses `lib_fx` without declaring it.
//!
//! A fresh server on v2 indexes thirdlib/fixtures.py during the scan; analysing conftest.py
//! last on it reports `lib_fx` as undeclared. The server with the history reports nothing,
//! and re-sending the identical text makes the finding appear.

use pytest_language_server::FixtureDatabase;
use std::fs;
use std::path::Path;

const V1: &str = "import pytest\n\n\n@pytest.fixture\ndef wrapped():\n    return 1\n";
const V2: &str = "import pytest\n\npytest_plugins = [\"thirdlib.fixtures\"]\n\n\n@pytest.fixture\ndef wrapped():\n    return lib_fx.value\n";

fn make_workspace(root: &Path, conftest: &str) {
    let sp = root.join(".venv/lib/python3.11/site-packages");
    fs::create_dir_all(sp.join("thirdlib")).unwrap();
    fs::write(sp.join("thirdlib/__init__.py"), "").unwrap();
    fs::write(
        sp.join("thirdlib/fixtures.py"),
        "import pytest\n\n\n@pytest.fixture\ndef lib_fx():\n    return object()\n",
    )
    .unwrap();
    fs::create_dir_all(root.join("tests")).unwrap();
    fs::write(root.join("conftest.py"), conftest).unwrap();
    fs::write(
        root.join("tests/test_a.py"),
        "def test_a(wrapped):\n    pass\n",
    )
    .unwrap();
}

fn findings(db: &FixtureDatabase, file: &Path) -> Vec<(String, usize, usize)> {
    let mut v: Vec<_> = db
        .get_undeclared_fixtures(file)
        .into_iter()
        .map(|u| (u.name, u.line, u.start_char))
        .collect();
    v.sort();
    v
}

#[test]
fn undeclared_findings_of_the_edit_that_introduces_the_import() {
    // --- server with a history -------------------------------------------------------
    let tmp = tempfile::tempdir().unwrap();
    let root = tmp.path().canonicalize().unwrap();
    make_workspace(&root, V1);
    let conftest = root.join("conftest.py");

    let hist = FixtureDatabase::new();
    hist.scan_workspace(&root);
    hist.document_opened(&conftest);
    hist.analyze_file(conftest.clone(), V1); // didOpen
    hist.analyze_file(conftest.clone(), V2); // didChange
    let after_change = findings(&hist, &conftest);

    // re-sending the identical text
    hist.analyze_file(conftest.clone(), V2);
    let after_resend = findings(&hist, &conftest);

    // --- fresh server on the latest content, conftest.py analysed last -------------------
    let tmp2 = tempfile::tempdir().unwrap();
    let root2 = tmp2.path().canonicalize().unwrap();
    make_workspace(&root2, V2);
    let conftest2 = root2.join("conftest.py");
    let fresh = FixtureDatabase::new();
    fresh.scan_workspace(&root2);
    fresh.document_opened(&conftest2);
    fresh.analyze_file(conftest2.clone(), V2);
    let expected = findings(&fresh, &conftest2);

    println!("fresh server        : {:?}", expected);
    println!("history, after edit : {:?}", after_change);
    println!("history, same text again: {:?}", after_resend);

    assert_eq!(
        expected,
        vec![("lib_fx".to_string(), 8, 11)],
        "sanity: the fresh server reports lib_fx"
    );
    assert_eq!(
        after_change, expected,
        "findings of the document changed last differ from the fresh server"
    );
    assert_eq!(after_resend, after_change, "re-sending identical text changed the findings");
}
