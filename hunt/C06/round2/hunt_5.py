#!/usr/bin/env python3
"""hunt_5: callHierarchy/outgoingCalls reads the caller's text straight from `file_cache`
(providers/call_hierarchy.rs:264) instead of `get_file_content`; didClose removes that entry,
so after a conftest.py has merely been opened and closed (no edit at all) the `fromRanges` of
its fixtures' outgoing calls fall back to the range of the *callee's* definition.

Drives the real binary over stdio twice on identical workspaces:
  run A (fresh)  : initialize, wait for the scan, outgoingCalls for `derived`
  run B (history): the same, after didOpen + didClose of conftest.py with its on-disk text
and prints both answers. Exit code 1 when they differ.
"""
import json
import os
import subprocess
import sys
import tempfile
import time

HERE = os.path.dirname(os.path.abspath(__file__))
BIN = os.path.join(HERE, "target", "debug", "pytest-language-server")

CONFTEST = """import pytest


@pytest.fixture
def base():
    return 1


@pytest.fixture
def derived(base):
    return base
"""
TEST = "def test_a(derived):\n    pass\n"


class Client:
    def __init__(self, root):
        self.p = subprocess.Popen([BIN], stdin=subprocess.PIPE, stdout=subprocess.PIPE,
                                  stderr=subprocess.DEVNULL)
        self.id = 0
        self.root = root

    def send(self, msg):
        body = json.dumps(msg).encode()
        self.p.stdin.write(b"Content-Length: %d\r\n\r\n" % len(body) + body)
        self.p.stdin.flush()

    def read(self):
        headers = {}
        while True:
            line = self.p.stdout.readline()
            if not line:
                raise EOFError
            line = line.strip()
            if not line:
                break
            k, v = line.split(b":", 1)
            headers[k.lower()] = v.strip()
        n = int(headers[b"content-length"])
        return json.loads(self.p.stdout.read(n))

    def request(self, method, params):
        self.id += 1
        rid = self.id
        self.send({"jsonrpc": "2.0", "id": rid, "method": method, "params": params})
        while True:
            m = self.read()
            if m.get("id") == rid and "method" not in m:
                return m.get("result")
            if "id" in m and "method" in m:  # server->client request: answer it
                self.send({"jsonrpc": "2.0", "id": m["id"], "result": None})

    def notify(self, method, params):
        self.send({"jsonrpc": "2.0", "method": method, "params": params})

    def wait_scan(self):
        while True:
            m = self.read()
            if "id" in m and "method" in m:
                self.send({"jsonrpc": "2.0", "id": m["id"], "result": None})
            if m.get("method") == "window/logMessage" and \
                    "Workspace scan complete" in m["params"]["message"]:
                return

    def start(self):
        self.request("initialize", {"processId": None, "rootUri": "file://" + self.root,
                                    "capabilities": {}})
        self.notify("initialized", {})
        self.wait_scan()

    def stop(self):
        try:
            self.request("shutdown", None)
            self.notify("exit", None)
        except Exception:
            pass
        self.p.kill()


def make_ws():
    d = os.path.realpath(tempfile.mkdtemp(prefix="hunt5_"))
    os.makedirs(os.path.join(d, "tests"))
    open(os.path.join(d, "conftest.py"), "w").write(CONFTEST)
    open(os.path.join(d, "tests", "test_a.py"), "w").write(TEST)
    return d


def outgoing(c, root):
    uri = "file://" + os.path.join(root, "conftest.py")
    items = c.request("textDocument/prepareCallHierarchy",
                      {"textDocument": {"uri": uri}, "position": {"line": 9, "character": 5}})
    res = c.request("callHierarchy/outgoingCalls", {"item": items[0]})
    return [(r["to"]["name"], r["fromRanges"]) for r in res]


def main():
    ra = make_ws()
    a = Client(ra)
    a.start()
    fresh = outgoing(a, ra)
    a.stop()

    rb = make_ws()
    b = Client(rb)
    b.start()
    uri = "file://" + os.path.join(rb, "conftest.py")
    b.notify("textDocument/didOpen", {"textDocument": {"uri": uri, "languageId": "python",
                                                         "version": 1, "text": CONFTEST}})
    b.notify("textDocument/didClose", {"textDocument": {"uri": uri}})
    time.sleep(0.3)
    hist = outgoing(b, rb)
    b.stop()

    print("outgoingCalls of `derived` (conftest.py line 10: `def derived(base):`)")
    print("  fresh server                    :", json.dumps(fresh))
    print("  after didOpen+didClose conftest :", json.dumps(hist))
    if fresh != hist:
        print("DIFFERENT: the answer depends on the open/close history")
        sys.exit(1)
    print("same")


if __name__ == "__main__":
    main()
