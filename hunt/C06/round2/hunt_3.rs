//! hunt_3: a document that is open with an unparsable buffer when the workspace scan's walk
//! reaches it is never indexed from its (valid) file on disk.
//!
//! `analyze_file_serialised` skips the walk's analysis of every open document ("the
//! analysis of the buffer stands (or is about to come)"), but the analysis of an unparsable
//! buffer records nothing. The last valid version of the document - the file on disk - is
//! then not in effect for the rest of the workspace, and whether it is depends only on
//! whether didOpen or the walk came first (at start-up the editor sends didOpen for its
//! restored, possibly dirty buffers while the scan is still running).

use pytest_language_server::FixtureDatabase;
use std::fs;
use std::path::Path;

const CONFTEST_ON_DISK: &str = "import pytest\n\n\n@pytest.fixture\ndef fx():\n    return 1\n";
// the editor's dirty buffer: the user is in the middle of typing a second fixture
const CONFTEST_BUFFER: &str =
    "import pytest\n\n\n@pytest.fixture\ndef fx():\n    return 1\n\n\n@pytest.fixture\ndef other(:\n";
const TEST_A: &str = "def test_a(fx):\n    pass\n";

fn make_workspace(root: &Path) {
    fs::create_dir_all(root.join("tests")).unwrap();
    fs::write(root.join("conftest.py"), CONFTEST_ON_DISK).unwrap();
    fs::write(root.join("tests/test_a.py"), TEST_A).unwrap();
}

fn goto_fx(db: &FixtureDatabase, root: &Path) -> Option<(String, usize)> {
    db.find_fixture_definition(&root.join("tests/test_a.py"), 0, 11)
        .map(|d| {
            (
                d.file_path.strip_prefix(root).unwrap().display().to_string(),
                d.line,
            )
        })
}

#[test]
fn open_unparsable_buffer_before_the_walk() {
    // schedule 1: the walk analyses conftest.py first, didOpen (unparsable buffer) second
    let t1 = tempfile::tempdir().unwrap();
    let r1 = t1.path().canonicalize().unwrap();
    make_workspace(&r1);
    let db1 = FixtureDatabase::new();
    db1.scan_workspace(&r1);
    db1.document_opened(&r1.join("conftest.py"));
    db1.analyze_file(r1.join("conftest.py"), CONFTEST_BUFFER);
    let scan_first = goto_fx(&db1, &r1);

    // schedule 2: didOpen (unparsable buffer) first, the walk second
    let t2 = tempfile::tempdir().unwrap();
    let r2 = t2.path().canonicalize().unwrap();
    make_workspace(&r2);
    let db2 = FixtureDatabase::new();
    db2.document_opened(&r2.join("conftest.py"));
    db2.analyze_file(r2.join("conftest.py"), CONFTEST_BUFFER);
    db2.scan_workspace(&r2);
    let open_first = goto_fx(&db2, &r2);

    println!("go-to-definition of `fx` in tests/test_a.py");
    println!("  scan first, didOpen(unparsable) second : {:?}", scan_first);
    println!("  didOpen(unparsable) first, scan second : {:?}", open_first);
    println!(
        "  definitions of conftest.py in the index (open first): {:?}",
        db2.file_definitions
            .get(&r2.join("conftest.py"))
            .map(|s| s.value().clone())
    );

    assert_eq!(scan_first, Some(("conftest.py".to_string(), 5)));
    assert_eq!(
        open_first, scan_first,
        "the last valid version of conftest.py (the file on disk) is not in effect"
    );
}
