//! Differential fuzz: random open/change/save/close histories vs a fresh scan of the latest
//! valid contents. Scratch tool, not a deliverable.

use pytest_language_server::FixtureDatabase;
use std::collections::{BTreeMap, BTreeSet};
use std::fs;
use std::path::{Path, PathBuf};

struct Rng(u64);
impl Rng {
    fn next(&mut self) -> u64 {
        self.0 ^= self.0 << 13;
        self.0 ^= self.0 >> 7;
        self.0 ^= self.0 << 17;
        self.0
    }
    fn below(&mut self, n: usize) -> usize {
        (self.next() % n as u64) as usize
    }
    fn chance(&mut self, pct: usize) -> bool {
        self.below(100) < pct
    }
    fn pick<'a, T>(&mut self, v: &'a [T]) -> &'a T {
        &v[self.below(v.len())]
    }
}

const NAMES: &[&str] = &["a", "b", "c", "db"];
const FILES: &[&str] = &[
    "conftest.py",
    "tests/conftest.py",
    "tests/test_x.py",
    "tests/sub/conftest.py",
    "tests/sub/test_y.py",
    "tests/fx_a.py",
    "tests/fx_b.py",
    "tests/sub/fx_c.py",
];
const KEEP: &str = "from ..tests.fx_a import *\nfrom ..tests.fx_b import *\nfrom ..tests.sub.fx_c import *\n";

fn gen_deps(rng: &mut Rng) -> Vec<&'static str> {
    let mut d = Vec::new();
    for n in NAMES {
        if rng.chance(25) {
            d.push(*n);
        }
    }
    d
}

fn gen_fixture(rng: &mut Rng, out: &mut String) {
    let name = *rng.pick(NAMES);
    let deps = gen_deps(rng);
    let scope = match rng.below(5) {
        0 => "(scope=\"session\")",
        1 => "(scope=\"module\")",
        2 => "()",
        3 => "(autouse=True)",
        _ => "",
    };
    match rng.below(8) {
        0 => {
            out.push_str(&format!(
                "@pytest.fixture(name=\"{}\")\ndef impl_{}({}):\n    return 1\n\n",
                name,
                name,
                deps.join(", ")
            ));
        }
        1 => {
            out.push_str(&format!(
                "@pytest.fixture{}\nasync def {}(\n    {}\n):\n    yield 1\n\n",
                scope,
                name,
                deps.iter().map(|d| format!("{},", d)).collect::<Vec<_>>().join("\n    ")
            ));
        }
        2 => {
            out.push_str(&format!(
                "def _raw_{}():\n    return 1\n\n{} = pytest.fixture{}(_raw_{})\n\n",
                name,
                name,
                if scope.is_empty() { "()" } else { scope },
                name
            ));
        }
        3 => {
            let mut p = vec!["self"];
            p.extend(deps.iter());
            out.push_str(&format!(
                "class TestK{}:\n    @pytest.fixture{}\n    def {}({}):\n        return 1\n\n    def test_m(self, {}):\n        pass\n\n",
                rng.below(3),
                scope,
                name,
                p.join(", "),
                name
            ));
        }
        4 => {
            // body uses some name undeclared
            let other = *rng.pick(NAMES);
            out.push_str(&format!(
                "@pytest.fixture{}\ndef {}({}):\n    x = {}\n    return x\n\n",
                scope,
                name,
                deps.join(", "),
                other
            ));
        }
        5 => {
            // keyword-only / default
            out.push_str(&format!(
                "@pytest.fixture{}\ndef {}({} *, k=1) -> int:\n    \"\"\"doc\"\"\"\n    return 1\n\n",
                scope,
                name,
                deps.iter().map(|d| format!("{},", d)).collect::<Vec<_>>().join(" ")
            ));
        }
        _ => {
            out.push_str(&format!(
                "@pytest.fixture{}\ndef {}({}):\n    return 1\n\n",
                scope,
                name,
                deps.join(", ")
            ));
        }
    }
}

fn gen_test(rng: &mut Rng, out: &mut String, i: usize) {
    let deps = gen_deps(rng);
    match rng.below(5) {
        0 => {
            let u = *rng.pick(NAMES);
            out.push_str(&format!(
                "@pytest.mark.usefixtures(\"{}\")\ndef test_{}({}):\n    pass\n\n",
                u,
                i,
                deps.join(", ")
            ));
        }
        1 => {
            let u = *rng.pick(NAMES);
            out.push_str(&format!(
                "def test_{}({}):\n    assert {}\n\n",
                i,
                deps.join(", "),
                u
            ));
        }
        2 => {
            out.push_str(&format!(
                "async def test_{}(\n    {}\n):\n    pass\n\n",
                i,
                deps.iter().map(|d| format!("{}: int,", d)).collect::<Vec<_>>().join("\n    ")
            ));
        }
        _ => {
            out.push_str(&format!("def test_{}({}):\n    pass\n\n", i, deps.join(", ")));
        }
    }
}

fn gen_imports(rng: &mut Rng, file: &str, out: &mut String) {
    // candidates relative to the file
    let cands: &[&str] = match file {
        "conftest.py" => &["from tests.fx_a import *", "from tests.fx_b import a", "pytest_plugins = [\"tests.fx_b\"]", "from .tests.sub.fx_c import *"],
        "tests/conftest.py" => &["from .fx_a import *", "from .fx_b import *", "from .fx_a import a, b", "from .fx_b import db", "pytest_plugins = [\"tests.fx_a\"]", "pytest_plugins = (\"tests.fx_b\", \"tests.sub.fx_c\")", "from .sub.fx_c import *"],
        "tests/test_x.py" => &["from .fx_a import *", "from .fx_b import a", "from .fx_a import db"],
        "tests/sub/conftest.py" => &["from ..fx_a import *", "from .fx_c import *", "from ..fx_b import b, c", "from .fx_c import a"],
        "tests/sub/test_y.py" => &["from .fx_c import *", "from ..fx_b import db"],
        "tests/fx_a.py" => &["from .fx_b import *", "from .sub.fx_c import a"],
        "tests/fx_b.py" => &["from .fx_a import *", "from .sub.fx_c import *"],
        "tests/sub/fx_c.py" => &["from ..fx_a import *", "from ..fx_b import c"],
        _ => &[],
    };
    for c in cands {
        if rng.chance(22) {
            if rng.chance(25) {
                out.push_str(&format!("try:\n    {}\nexcept ImportError:\n    pass\n", c));
            } else {
                out.push_str(c);
                out.push('\n');
            }
        }
    }
}

fn gen_content(rng: &mut Rng, file: &str) -> String {
    let mut s = String::from("import pytest\n");
    gen_imports(rng, file, &mut s);
    s.push('\n');
    let is_test = file.contains("test_");
    let n = rng.below(4);
    for i in 0..n {
        if rng.chance(if is_test { 35 } else { 90 }) {
            gen_fixture(rng, &mut s);
        } else {
            gen_test(rng, &mut s, i);
        }
    }
    if is_test && rng.chance(20) {
        s.push_str(&format!("pytestmark = pytest.mark.usefixtures(\"{}\")\n", rng.pick(NAMES)));
    }
    s
}

fn make_invalid(rng: &mut Rng, s: &str) -> String {
    match rng.below(3) {
        0 => format!("{}\ndef broken(:\n    pass\n", s),
        1 => format!("def oops(\n{}", s),
        _ => format!("{}\n    x = = 1\n", s),
    }
}

fn is_valid(s: &str) -> bool {
    // use the database itself as the judge of validity: a scratch db
    let db = FixtureDatabase::new();
    let p = PathBuf::from("/nonexistent_zz/probe.py");
    db.analyze_file(p.clone(), s);
    db.imports.contains_key(&p)
}

fn rel(root: &Path, p: &Path) -> String {
    p.strip_prefix(root).map(|p| p.display().to_string()).unwrap_or_else(|_| format!("ABS:{}", p.display()))
}

fn snapshot(
    db: &FixtureDatabase,
    root: &Path,
    invalid: &BTreeSet<String>,
    last_changed: Option<&str>,
) -> BTreeMap<String, String> {
    let mut snap = BTreeMap::new();
    for f in FILES {
        let path = root.join(f);
        // definitions
        let mut defs = Vec::new();
        for e in db.definitions.iter() {
            for d in e.value() {
                if d.file_path == path {
                    defs.push(format!(
                        "{} L{}-{} C{}-{} {:?} au={} deps={:?} pl={} tp={} rt={:?} y={:?} doc={:?}",
                        d.name, d.line, d.end_line, d.start_char, d.end_char, d.scope, d.autouse,
                        d.dependencies, d.is_plugin, d.is_third_party, d.return_type, d.yield_line, d.docstring
                    ));
                }
            }
        }
        defs.sort();
        snap.insert(format!("{} defs", f), format!("{:#?}", defs));

        // usages
        let mut us = Vec::new();
        if let Some(u) = db.usages.get(&path) {
            for u in u.iter() {
                let mut s = format!("{} L{} C{}-{}", u.name, u.line, u.start_char, u.end_char);
                if !invalid.contains(*f) {
                    let r = db.find_fixture_definition(&path, (u.line - 1) as u32, u.start_char as u32);
                    s.push_str(&format!(
                        " -> {:?}",
                        r.map(|d| format!("{}:{}", rel(root, &d.file_path), d.line))
                    ));
                }
                us.push(s);
            }
        }
        us.sort();
        snap.insert(format!("{} usages", f), format!("{:#?}", us));

        // reverse index consistent?
        let mut rev = Vec::new();
        for e in db.usage_by_fixture.iter() {
            for (p, u) in e.value() {
                if *p == path {
                    rev.push(format!("{} L{} C{}-{}", u.name, u.line, u.start_char, u.end_char));
                }
            }
        }
        rev.sort();
        snap.insert(format!("{} rev-usages", f), format!("{:#?}", rev));

        // available
        let mut av: Vec<String> = db
            .get_available_fixtures(&path)
            .into_iter()
            .map(|d| format!("{} {}:{}", d.name, rel(root, &d.file_path), d.line))
            .collect();
        av.sort();
        snap.insert(format!("{} available", f), format!("{:#?}", av));

        // references for each def
        let mut refs = Vec::new();
        for e in db.definitions.iter() {
            for d in e.value() {
                if d.file_path == path {
                    let mut r: Vec<String> = db
                        .find_references_for_definition(d)
                        .into_iter()
                        .map(|u| format!("{}:{}:{}", rel(root, &u.file_path), u.line, u.start_char))
                        .collect();
                    r.sort();
                    refs.push(format!("{}@{} <- {:?}", d.name, d.line, r));
                }
            }
        }
        refs.sort();
        snap.insert(format!("{} refs", f), format!("{:#?}", refs));

        // cycles / scope mismatches
        let mut cy: Vec<String> = db
            .detect_fixture_cycles_in_file(&path)
            .into_iter()
            .map(|c| format!("{}@{} {:?}", c.fixture.name, c.fixture.line, c.cycle_path))
            .collect();
        cy.sort();
        snap.insert(format!("{} cycles", f), format!("{:#?}", cy));
        let mut sm: Vec<String> = db
            .detect_scope_mismatches_in_file(&path)
            .into_iter()
            .map(|m| {
                format!(
                    "{}@{} -> {}@{}:{}",
                    m.fixture.name, m.fixture.line, m.dependency.name,
                    rel(root, &m.dependency.file_path), m.dependency.line
                )
            })
            .collect();
        sm.sort();
        snap.insert(format!("{} mismatches", f), format!("{:#?}", sm));

        if last_changed == Some(*f) {
            let mut ud: Vec<String> = db
                .get_undeclared_fixtures(&path)
                .into_iter()
                .map(|u| format!("{} L{} C{}-{} in {}@{}", u.name, u.line, u.start_char, u.end_char, u.function_name, u.function_line))
                .collect();
            ud.sort();
            snap.insert(format!("{} undeclared", f), format!("{:#?}", ud));
        }
    }
    snap
}

fn write_ws(root: &Path, contents: &BTreeMap<String, String>) {
    for (f, c) in contents {
        let p = root.join(f);
        fs::create_dir_all(p.parent().unwrap()).unwrap();
        fs::write(p, c).unwrap();
    }
    fs::create_dir_all(root.join("keep")).unwrap();
    fs::write(root.join("keep/conftest.py"), KEEP).unwrap();
}

fn run_seed(seed: u64, steps: usize) -> Result<(), String> {
    let mut rng = Rng(seed.wrapping_mul(0x9E3779B97F4A7C15) | 1);
    let tmp = tempfile::tempdir().unwrap();
    let root = tmp.path().canonicalize().unwrap();

    // initial valid contents on disk
    let mut disk: BTreeMap<String, String> = BTreeMap::new();
    for f in FILES {
        let mut c = gen_content(&mut rng, f);
        while !is_valid(&c) {
            c = gen_content(&mut rng, f);
        }
        disk.insert(f.to_string(), c);
    }
    write_ws(&root, &disk);
    let db = FixtureDatabase::new();
    db.scan_workspace(&root);

    let mut buffer: BTreeMap<String, String> = BTreeMap::new(); // open docs -> current text
    let mut last_valid: BTreeMap<String, String> = disk.clone();
    let mut open_order: Vec<String> = Vec::new(); // order of last change among open docs
    let mut log: Vec<String> = Vec::new();
    let mut last_changed: Option<String> = None;
    let mut last_change_valid = true;

    for step in 0..steps {
        let f = rng.pick(FILES).to_string();
        let path = root.join(&f);
        let op = rng.below(100);
        if !buffer.contains_key(&f) {
            // open with disk content
            let c = disk[&f].clone();
            db.document_opened(&path);
            db.analyze_file(path.clone(), &c);
            log.push(format!("open {}", f));
            let v = is_valid(&c);
            if v {
                last_valid.insert(f.clone(), c.clone());
            }
            buffer.insert(f.clone(), c);
            last_changed = Some(f.clone());
            last_change_valid = v;
        } else if op < 60 {
            let mut c = gen_content(&mut rng, &f);
            if rng.chance(25) {
                c = make_invalid(&mut rng, &c);
            }
            if rng.chance(10) {
                c = buffer[&f].clone(); // identical text
            }
            db.document_opened(&path);
            db.analyze_file(path.clone(), &c);
            let v = is_valid(&c);
            log.push(format!("change {} valid={}\n{}", f, v, c));
            if v {
                last_valid.insert(f.clone(), c.clone());
            }
            buffer.insert(f.clone(), c);
            last_changed = Some(f.clone());
            last_change_valid = v;
        } else if op < 80 {
            // save
            let c = buffer[&f].clone();
            fs::write(&path, &c).unwrap();
            disk.insert(f.clone(), c);
            log.push(format!("save {}", f));
            continue;
        } else {
            // close (only if saved and valid)
            let unsaved_ok = std::env::var("FUZZ_UNSAVED_CLOSE").is_ok() && is_valid(&disk[&f]);
            if unsaved_ok && disk[&f] != buffer[&f] {
                last_valid.insert(f.clone(), disk[&f].clone());
            }
            if unsaved_ok || (disk[&f] == buffer[&f] && is_valid(&buffer[&f])) {
                db.document_closed(&path);
                db.cleanup_file_cache(&path);
                buffer.remove(&f);
                log.push(format!("close {}", f));
                if last_changed.as_deref() == Some(f.as_str()) {
                    last_changed = None;
                }
            } else {
                continue;
            }
        }
        open_order.retain(|x| x != &f);
        if buffer.contains_key(&f) {
            open_order.push(f.clone());
        }

        // ---- twin ----
        let tmp2 = tempfile::tempdir().unwrap();
        let root2 = tmp2.path().canonicalize().unwrap();
        write_ws(&root2, &last_valid);
        let twin = FixtureDatabase::new();
        twin.scan_workspace(&root2);
        for of in &open_order {
            let p2 = root2.join(of);
            twin.document_opened(&p2);
            twin.analyze_file(p2, &last_valid[of]);
        }
        let invalid: BTreeSet<String> = buffer
            .iter()
            .filter(|(_, c)| !is_valid(c))
            .map(|(f, _)| f.clone())
            .collect();
        let lc = if last_change_valid { last_changed.as_deref() } else { None };
        let a = snapshot(&db, &root, &invalid, lc);
        let b = snapshot(&twin, &root2, &invalid, lc);
        if a != b {
            let mut msg = format!("seed {} step {}: DIVERGENCE\n", seed, step);
            for (k, va) in &a {
                let vb = &b[k];
                if va != vb {
                    msg.push_str(&format!("== {}\n-- history:\n{}\n-- fresh:\n{}\n", k, va, vb));
                }
            }
            msg.push_str("== final valid contents:\n");
            for (f, c) in &last_valid {
                msg.push_str(&format!("--- {} (open={}, invalid_now={})\n{}\n", f, buffer.contains_key(f), invalid.contains(f), c));
            }
            msg.push_str("== log (last 12):\n");
            for l in log.iter().rev().take(12).rev() {
                msg.push_str(l);
                msg.push('\n');
            }
            return Err(msg);
        }
    }
    Ok(())
}

#[test]
fn fuzz() {
    let start: u64 = std::env::var("FUZZ_START").ok().and_then(|s| s.parse().ok()).unwrap_or(1);
    let count: u64 = std::env::var("FUZZ_COUNT").ok().and_then(|s| s.parse().ok()).unwrap_or(20);
    let steps: usize = std::env::var("FUZZ_STEPS").ok().and_then(|s| s.parse().ok()).unwrap_or(25);
    let mut failures = 0;
    for seed in start..start + count {
        if let Err(m) = run_seed(seed, steps) {
            println!("{}", m);
            failures += 1;
            if failures >= 3 {
                break;
            }
        }
    }
    assert_eq!(failures, 0);
}
