//! hunt_4: the imports of the last valid version of a conftest.py are remembered only in
//! `ast_cache`; closing the document drops that entry, so a conftest that was saved while
//! unparsable and then closed keeps its own fixtures in effect but loses every fixture it
//! provided through its imports.
//!
//! History: open conftest.py (v1: `from .helpers import *` + fixture `own`), change to v2
//! (v1 + an unfinished `def`), save, close.

use pytest_language_server::FixtureDatabase;
use std::fs;
use std::path::Path;

const V1: &str = "import pytest\nfrom .helpers import *\n\n\n@pytest.fixture\ndef own():\n    return 1\n";
const V2: &str = "import pytest\nfrom .helpers import *\n\n\n@pytest.fixture\ndef own():\n    return 1\n\n\ndef unfinished(:\n";
const HELPERS: &str = "import pytest\n\n\n@pytest.fixture\ndef hfx():\n    return 2\n";
const TEST_A: &str = "def test_a(own, hfx):\n    pass\n";

fn resolve(db: &FixtureDatabase, root: &Path) -> (Option<String>, Option<String>, Vec<String>) {
    let test = root.join("tests/test_a.py");
    let f = |d: pytest_language_server::FixtureDefinition| {
        format!(
            "{}:{}",
            d.file_path.strip_prefix(root).unwrap().display(),
            d.line
        )
    };
    let own = db.find_fixture_definition(&test, 0, 11).map(f);
    let hfx = db.find_fixture_definition(&test, 0, 16).map(f);
    let mut avail: Vec<String> = db
        .get_available_fixtures(&test)
        .into_iter()
        .map(|d| d.name)
        .collect();
    avail.sort();
    (own, hfx, avail)
}

#[test]
fn close_a_conftest_that_was_saved_unparsable() {
    let tmp = tempfile::tempdir().unwrap();
    let root = tmp.path().canonicalize().unwrap();
    fs::create_dir_all(root.join("tests")).unwrap();
    fs::write(root.join("tests/__init__.py"), "").unwrap();
    fs::write(root.join("tests/conftest.py"), V1).unwrap();
    fs::write(root.join("tests/helpers.py"), HELPERS).unwrap();
    fs::write(root.join("tests/test_a.py"), TEST_A).unwrap();
    let conftest = root.join("tests/conftest.py");

    let db = FixtureDatabase::new();
    db.scan_workspace(&root);
    let fresh = resolve(&db, &root);

    db.document_opened(&conftest);
    db.analyze_file(conftest.clone(), V1); // didOpen
    db.analyze_file(conftest.clone(), V2); // didChange: unparsable
    let while_invalid = resolve(&db, &root);

    fs::write(&conftest, V2).unwrap(); // save
    db.document_closed(&conftest); // didClose
    db.cleanup_file_cache(&conftest);
    let after_close = resolve(&db, &root);

    println!("(own, hfx, available in tests/test_a.py)");
    println!("  fresh server on the last valid content : {:?}", fresh);
    println!("  conftest.py open and unparsable        : {:?}", while_invalid);
    println!("  ... saved and closed                   : {:?}", after_close);

    assert_eq!(while_invalid, fresh);
    assert_eq!(
        after_close, fresh,
        "the imports of the last valid version are no longer in effect"
    );
}
