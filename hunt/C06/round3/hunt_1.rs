//! C06 hunt 1: while a test module is unparsable, resolution inside it reads the *current*
//! (broken) buffer at the line/columns of the *last valid* version (`binding_of`), so a
//! reference query issued from conftest.py changes its answer.
use pytest_language_server::FixtureDatabase;
use std::fs;

const CONFTEST: &str = "import pytest\n\n@pytest.fixture\ndef db():\n    return 0\n";

const TEST_V1: &str = "\
import pytest


@pytest.fixture
def db():
    return 1


class TestA:

    @pytest.fixture
    def db(self, db):
        return db

    def test_a(self, db):
        pass
";

fn refs_of_conftest_db(db: &FixtureDatabase, conftest: &std::path::Path) -> Vec<(String, usize)> {
    let def = db
        .get_definition_at_line(conftest, 4, "db")
        .expect("conftest db defined");
    let mut refs: Vec<(String, usize)> = db
        .find_references_for_definition(&def)
        .into_iter()
        .map(|u| {
            (
                u.file_path.file_name().unwrap().to_string_lossy().to_string(),
                u.line,
            )
        })
        .collect();
    refs.sort();
    refs
}

#[test]
fn references_from_conftest_do_not_depend_on_the_broken_buffer_of_a_test_module() {
    let dir = tempfile::tempdir().unwrap();
    let root = dir.path().canonicalize().unwrap();
    let conftest = root.join("conftest.py");
    let test = root.join("test_a.py");
    fs::write(&conftest, CONFTEST).unwrap();
    fs::write(&test, TEST_V1).unwrap();

    // History: scan, open test_a.py (valid), then type something that does not parse.
    let a = FixtureDatabase::new();
    a.scan_workspace(&root);
    a.document_opened(&test);
    a.analyze_file(test.clone(), TEST_V1);
    let before = refs_of_conftest_db(&a, &conftest);

    // two lines typed at the top, the second one incomplete
    let broken = format!("import os\ndef helper(:\n{}", TEST_V1);
    a.analyze_file(test.clone(), &broken);
    let during = refs_of_conftest_db(&a, &conftest);

    // Reference server: fresh, latest syntactically valid content of each file.
    let b = FixtureDatabase::new();
    b.scan_workspace(&root);
    let fresh = refs_of_conftest_db(&b, &conftest);

    println!("before the broken edit: {:?}", before);
    println!("while broken:           {:?}", during);
    println!("fresh server:           {:?}", fresh);
    assert_eq!(before, fresh, "sanity: valid history equals fresh");
    assert_eq!(
        during, fresh,
        "references of conftest.py::db changed because test_a.py's buffer stopped parsing"
    );
}
