//! C06 hunt 3: an edit starts importing a module that is open in the editor with a buffer
//! that does not parse. The module's last valid version (the file on disk) is indexed, but
//! the modules *it* imports are not followed: `analyze_unseen_imported_modules` re-reads the
//! module through `get_parsed_ast` (strict) on the broken buffer and gives up.
use pytest_language_server::FixtureDatabase;
use std::fs;

const CONFTEST_V1: &str = "import pytest\n";
const CONFTEST_V2: &str = "import pytest\nfrom .newmod import *\n";
const NEWMOD: &str = "\
import pytest
from .deep import *

@pytest.fixture
def newmod_fx():
    return 1
";
const DEEP: &str = "import pytest\n\n@pytest.fixture\ndef deep_fx():\n    return 2\n";
const TEST: &str = "def test_it(newmod_fx, deep_fx):\n    pass\n";

fn observe(db: &FixtureDatabase, root: &std::path::Path) -> Vec<String> {
    let test = root.join("pkg/test_it.py");
    let mut out = Vec::new();
    for (name, col) in [("newmod_fx", 12u32), ("deep_fx", 23u32)] {
        let d = db.find_fixture_definition(&test, 0, col);
        out.push(format!(
            "goto {} -> {:?}",
            name,
            d.map(|d| (d.file_path.strip_prefix(root).unwrap().to_path_buf(), d.line))
        ));
    }
    let mut avail: Vec<String> = db
        .get_available_fixtures(&test)
        .into_iter()
        .map(|d| d.name)
        .collect();
    avail.sort();
    out.push(format!("completion candidates in test_it.py: {:?}", avail));
    out
}

fn build(root: &std::path::Path, conftest: &str) {
    fs::create_dir_all(root.join("pkg")).unwrap();
    fs::write(root.join("pkg/__init__.py"), "").unwrap();
    fs::write(root.join("pkg/conftest.py"), conftest).unwrap();
    fs::write(root.join("pkg/newmod.py"), NEWMOD).unwrap();
    fs::write(root.join("pkg/deep.py"), DEEP).unwrap();
    fs::write(root.join("pkg/test_it.py"), TEST).unwrap();
}

#[test]
fn imports_of_a_module_whose_buffer_is_broken_are_followed() {
    // History
    let dir_a = tempfile::tempdir().unwrap();
    let root_a = dir_a.path().canonicalize().unwrap();
    build(&root_a, CONFTEST_V1);
    let a = FixtureDatabase::new();
    a.scan_workspace(&root_a); // nothing imports newmod.py yet
    let newmod = root_a.join("pkg/newmod.py");
    a.document_opened(&newmod);
    a.analyze_file(newmod.clone(), &format!("{}def broken(:\n", NEWMOD)); // didOpen, mid-edit
    let conftest = root_a.join("pkg/conftest.py");
    a.document_opened(&conftest);
    a.analyze_file(conftest.clone(), CONFTEST_V2); // the edit that starts importing newmod

    // Reference: fresh server on the latest syntactically valid content of each file
    let dir_b = tempfile::tempdir().unwrap();
    let root_b = dir_b.path().canonicalize().unwrap();
    build(&root_b, CONFTEST_V2);
    let b = FixtureDatabase::new();
    b.scan_workspace(&root_b);

    let oa = observe(&a, &root_a);
    let ob = observe(&b, &root_b);
    println!("history: {:#?}", oa);
    println!("fresh  : {:#?}", ob);
    assert_eq!(oa, ob);
}
