//! C06 hunt 4 (minor): the caller names of call-hierarchy "incoming calls" are derived from a
//! strict parse of the caller's *current* buffer (`find_containing_function`), while the
//! usages they are attached to are those of its last valid version. As soon as the caller's
//! buffer stops parsing, every caller of a conftest fixture in that file becomes "<unknown>".
use pytest_language_server::FixtureDatabase;
use std::fs;

const CONFTEST: &str = "import pytest\n\n@pytest.fixture\ndef db():\n    return 0\n";
const TEST_V1: &str = "def test_one(db):\n    pass\n\ndef test_two(db):\n    pass\n";

fn callers(db: &FixtureDatabase, root: &std::path::Path) -> Vec<(usize, String)> {
    // what providers/call_hierarchy.rs::handle_incoming_calls computes
    let def = db.get_definition_at_line(&root.join("conftest.py"), 4, "db").unwrap();
    let mut out: Vec<(usize, String)> = db
        .find_references_for_definition(&def)
        .into_iter()
        .map(|u| {
            (
                u.line,
                db.find_containing_function(&u.file_path, u.line)
                    .unwrap_or_else(|| "<unknown>".to_string()),
            )
        })
        .collect();
    out.sort();
    out
}

#[test]
fn incoming_calls_keep_the_caller_names_of_the_last_valid_version() {
    let dir = tempfile::tempdir().unwrap();
    let root = dir.path().canonicalize().unwrap();
    fs::write(root.join("conftest.py"), CONFTEST).unwrap();
    fs::write(root.join("test_a.py"), TEST_V1).unwrap();
    let test = root.join("test_a.py");

    let a = FixtureDatabase::new();
    a.scan_workspace(&root);
    a.document_opened(&test);
    a.analyze_file(test.clone(), TEST_V1);
    // the user starts a third test at the end of the file
    a.analyze_file(test.clone(), &format!("{}\ndef test_three(db\n", TEST_V1));

    let b = FixtureDatabase::new();
    b.scan_workspace(&root);

    let history = callers(&a, &root);
    let fresh = callers(&b, &root);
    println!("history: {:?}", history);
    println!("fresh  : {:?}", fresh);
    assert_eq!(history, fresh);
}
