//! Differential history fuzzer for C06 (scratch tool, not a deliverable by itself).
use pytest_language_server::FixtureDatabase;
use std::collections::{BTreeMap, BTreeSet};
use std::fs;
use std::path::{Path, PathBuf};

struct Rng(u64);
impl Rng {
    fn next(&mut self) -> u64 {
        let mut x = self.0;
        x ^= x << 13;
        x ^= x >> 7;
        x ^= x << 17;
        self.0 = x;
        x
    }
    fn below(&mut self, n: usize) -> usize {
        (self.next() % n as u64) as usize
    }
    fn chance(&mut self, pct: usize) -> bool {
        self.below(100) < pct
    }
    fn pick<'a, T>(&mut self, xs: &'a [T]) -> &'a T {
        &xs[self.below(xs.len())]
    }
}

const FILES: &[&str] = &[
    "conftest.py",
    "helpers.py",
    "pkg/conftest.py",
    "pkg/fixtures_mod.py",
    "pkg/deep.py",
    "pkg/test_a.py",
    "pkg/test_b.py",
    "pkg/sub/conftest.py",
    "pkg/sub/test_c.py",
];
const LATE_FILES: &[&str] = &["pkg/newmod.py", "pkg/sub/test_new.py", "pkg/other/conftest.py", "pkg/other/test_o.py"];
const ANCHOR: &str = "test_anchor.py";
const ANCHOR_TEXT: &str =
    "from helpers import *\nfrom pkg.fixtures_mod import *\nfrom pkg.deep import *\nfrom pkg.newmod import *\n";
const POOL: &[&str] = &["fa", "fb", "fc", "fd"];

fn gen_params(rng: &mut Rng, with_self: bool) -> String {
    let mut ps: Vec<String> = Vec::new();
    if with_self {
        ps.push("self".into());
    }
    let n = rng.below(3);
    let mut used = BTreeSet::new();
    for _ in 0..n {
        let p = *rng.pick(POOL);
        if used.insert(p) {
            match rng.below(8) {
                0 => ps.push(format!("{}: int", p)),
                1 => ps.push(format!("{}=None", p)),
                _ => ps.push(p.to_string()),
            }
        }
    }
    ps.sort_by_key(|p| p.contains('='));
    if rng.chance(15) && !ps.is_empty() {
        // multi-line signature
        format!("\n    {},\n", ps.join(",\n    "))
    } else {
        ps.join(", ")
    }
}

fn gen_body(rng: &mut Rng, indent: &str) -> String {
    let mut s = String::new();
    if rng.chance(20) {
        s.push_str(&format!("{}\"\"\"doc {}\"\"\"\n", indent, rng.below(3)));
    }
    match rng.below(5) {
        0 => s.push_str(&format!("{}x = {}\n{}return x\n", indent, rng.pick(POOL), indent)),
        1 => s.push_str(&format!("{}yield 1\n", indent)),
        2 => s.push_str(&format!("{}assert {}\n", indent, rng.pick(POOL))),
        _ => s.push_str(&format!("{}return 1\n", indent)),
    }
    s
}

fn gen_fixture(rng: &mut Rng, indent: &str, in_class: bool) -> String {
    let name = *rng.pick(POOL);
    let mut s = String::new();
    let (deco, func) = match rng.below(9) {
        0 => ("@pytest.fixture()".to_string(), name.to_string()),
        1 => ("@pytest.fixture(scope=\"session\")".to_string(), name.to_string()),
        2 => ("@pytest.fixture(scope=\"module\")".to_string(), name.to_string()),
        3 => (format!("@pytest.fixture(name=\"{}\")", name), format!("impl_{}", rng.below(2))),
        4 => ("@pytest.fixture(autouse=True)".to_string(), name.to_string()),
        _ => ("@pytest.fixture".to_string(), name.to_string()),
    };
    s.push_str(&format!("{}{}\n", indent, deco));
    let is_async = rng.chance(10);
    s.push_str(&format!(
        "{}{}def {}({}){}:\n",
        indent,
        if is_async { "async " } else { "" },
        func,
        gen_params(rng, in_class),
        if rng.chance(15) { " -> int" } else { "" }
    ));
    s.push_str(&gen_body(rng, &format!("{}    ", indent)));
    s
}

fn gen_test(rng: &mut Rng, indent: &str, in_class: bool, k: usize) -> String {
    let mut s = String::new();
    if rng.chance(20) {
        s.push_str(&format!(
            "{}@pytest.mark.usefixtures(\"{}\")\n",
            indent,
            rng.pick(POOL)
        ));
    }
    s.push_str(&format!(
        "{}def test_{}({}):\n",
        indent,
        k,
        gen_params(rng, in_class)
    ));
    s.push_str(&gen_body(rng, &format!("{}    ", indent)));
    s
}

fn gen_file(rng: &mut Rng, file: &str) -> String {
    let mut s = String::from("import pytest\n");
    let imports: &[&str] = match file {
        "conftest.py" => &[
            "from helpers import *",
            "from helpers import fa",
            "from helpers import fb, fc",
            "pytest_plugins = [\"helpers\"]",
            "pytest_plugins = \"pkg.deep\"",
        ],
        "pkg/conftest.py" => &[
            "from .fixtures_mod import *",
            "from .fixtures_mod import fb, fc",
            "from .deep import fa",
            "from .newmod import *",
            "from .newmod import fa, fd",
            "try:\n    from .fixtures_mod import fd\nexcept ImportError:\n    from .deep import fd",
        ],
        "pkg/sub/conftest.py" | "pkg/other/conftest.py" => &["from ..fixtures_mod import *", "from ..deep import fb", "from ..newmod import *"],
        "pkg/newmod.py" => &["from .deep import *", "from .fixtures_mod import fb"],
        "pkg/sub/test_new.py" | "pkg/other/test_o.py" => &["from ..newmod import fa"],
        "pkg/fixtures_mod.py" => &["from .deep import *", "from .deep import fc"],
        "pkg/test_a.py" | "pkg/test_b.py" => &["from .fixtures_mod import fa", "from .deep import *"],
        "pkg/sub/test_c.py" => &["from ..fixtures_mod import fa, fb"],
        _ => &[],
    };
    for imp in imports {
        if rng.chance(25) {
            s.push_str(imp);
            s.push('\n');
        }
    }
    let is_test = file.contains("test_");
    let blocks = rng.below(5);
    for k in 0..blocks {
        for _ in 0..rng.below(3) {
            s.push('\n');
        }
        if rng.chance(10) {
            s.push_str("# comment\n");
        }
        let roll = rng.below(10);
        if roll < 5 || !is_test {
            if rng.chance(15) {
                s.push_str(&format!("class TestK{}:\n", k));
                s.push_str(&gen_fixture(rng, "    ", true));
                if is_test {
                    s.push_str(&gen_test(rng, "    ", true, k));
                }
            } else {
                s.push_str(&gen_fixture(rng, "", false));
            }
        } else if roll < 9 {
            s.push_str(&gen_test(rng, "", false, k));
        } else {
            s.push_str(&format!(
                "pytestmark = pytest.mark.usefixtures(\"{}\")\n",
                rng.pick(POOL)
            ));
        }
    }
    s
}

fn break_it(rng: &mut Rng, text: &str) -> String {
    let lines: Vec<&str> = text.lines().collect();
    let at = rng.below(lines.len() + 1);
    let mut out = String::new();
    for (i, l) in lines.iter().enumerate() {
        if i == at {
            out.push_str("def broken(:\n");
        }
        out.push_str(l);
        out.push('\n');
    }
    if at == lines.len() {
        out.push_str("def broken(:\n");
    }
    out
}

fn rel(root: &Path, p: &Path) -> String {
    p.strip_prefix(root)
        .map(|r| r.to_string_lossy().to_string())
        .unwrap_or_else(|_| format!("<outside>{}", p.display()))
}

/// Everything observable, with paths made relative to the root.
fn observe(
    db: &FixtureDatabase,
    root: &Path,
    skip_positions_in: &BTreeSet<String>,
    last_changed: Option<&str>,
) -> BTreeMap<String, String> {
    let mut out = BTreeMap::new();
    let mut all_files: Vec<String> = FILES.iter().chain(LATE_FILES.iter()).map(|s| s.to_string()).collect();
    all_files.push(ANCHOR.to_string());

    // definitions
    let mut defs = Vec::new();
    for e in db.definitions.iter() {
        for d in e.value() {
            defs.push(d.clone());
        }
    }
    defs.sort_by(|a, b| (&a.file_path, a.line, &a.name).cmp(&(&b.file_path, b.line, &b.name)));
    for d in &defs {
        out.insert(
            format!("def {}:{}:{}", rel(root, &d.file_path), d.line, d.name),
            format!(
                "end={} cols={}-{} doc={:?} ret={:?} tp={} plugin={} deps={:?} scope={:?} yield={:?} autouse={}",
                d.end_line, d.start_char, d.end_char, d.docstring, d.return_type,
                d.is_third_party, d.is_plugin, d.dependencies, d.scope, d.yield_line, d.autouse
            ),
        );
        let mut refs: Vec<String> = db
            .find_references_for_definition(d)
            .iter()
            .map(|u| format!("{}:{}:{}-{}", rel(root, &u.file_path), u.line, u.start_char, u.end_char))
            .collect();
        refs.sort();
        out.insert(
            format!("refs {}:{}:{}", rel(root, &d.file_path), d.line, d.name),
            format!("{:?}", refs),
        );
    }
    // file_definitions reverse index
    for e in db.file_definitions.iter() {
        let mut names: Vec<&String> = e.value().iter().collect();
        names.sort();
        out.insert(format!("filedefs {}", rel(root, e.key())), format!("{:?}", names));
    }
    // usages + goto definition
    for e in db.usages.iter() {
        let f = rel(root, e.key());
        let mut us: Vec<String> = e
            .value()
            .iter()
            .map(|u| format!("{}:{}:{}-{}", u.name, u.line, u.start_char, u.end_char))
            .collect();
        us.sort();
        out.insert(format!("usages {}", f), format!("{:?}", us));
        if skip_positions_in.contains(&f) {
            continue;
        }
        for u in e.value() {
            let r = db
                .find_fixture_definition(e.key(), (u.line - 1) as u32, u.start_char as u32)
                .map(|d| format!("{}:{}:{}", rel(root, &d.file_path), d.line, d.name));
            out.insert(
                format!("goto {}:{}:{}", f, u.line, u.start_char),
                format!("{:?}", r),
            );
        }
    }
    // usage_by_fixture reverse index
    for e in db.usage_by_fixture.iter() {
        let mut us: Vec<String> = e
            .value()
            .iter()
            .map(|(p, u)| format!("{}:{}:{}", rel(root, p), u.line, u.start_char))
            .collect();
        us.sort();
        out.insert(format!("usage_by_fixture {}", e.key()), format!("{:?}", us));
    }
    // module-level names
    for e in db.imports.iter() {
        let mut names: Vec<&String> = e.value().iter().collect();
        names.sort();
        out.insert(format!("names {}", rel(root, e.key())), format!("{:?}", names));
    }
    // completion candidates, dependency diagnostics
    for f in &all_files {
        let p = root.join(f);
        let mut av: Vec<String> = db
            .get_available_fixtures(&p)
            .iter()
            .map(|d| format!("{}@{}:{}", d.name, rel(root, &d.file_path), d.line))
            .collect();
        av.sort();
        out.insert(format!("available {}", f), format!("{:?}", av));
        let mut mm: Vec<String> = db
            .detect_scope_mismatches_in_file(&p)
            .iter()
            .map(|m| {
                format!(
                    "{}:{}->{}@{}:{}",
                    m.fixture.name,
                    m.fixture.line,
                    m.dependency.name,
                    rel(root, &m.dependency.file_path),
                    m.dependency.line
                )
            })
            .collect();
        mm.sort();
        out.insert(format!("mismatch {}", f), format!("{:?}", mm));
        let mut cy: Vec<String> = db
            .detect_fixture_cycles_in_file(&p)
            .iter()
            .map(|c| format!("{}:{}:{:?}", c.fixture.name, c.fixture.line, c.cycle_path))
            .collect();
        cy.sort();
        out.insert(format!("cycles {}", f), format!("{:?}", cy));
    }
    if let Some(f) = last_changed {
        let mut un: Vec<String> = db
            .get_undeclared_fixtures(&root.join(f))
            .iter()
            .map(|u| format!("{}:{}:{}-{} in {}@{}", u.name, u.line, u.start_char, u.end_char, u.function_name, u.function_line))
            .collect();
        un.sort();
        out.insert(format!("undeclared {}", f), format!("{:?}", un));
    }
    out
}

fn write_tree(root: &Path, contents: &BTreeMap<String, String>) {
    for (f, text) in contents {
        let p = root.join(f);
        fs::create_dir_all(p.parent().unwrap()).unwrap();
        fs::write(&p, text).unwrap();
    }
    fs::create_dir_all(root.join("pkg/other")).unwrap();
    fs::write(root.join("pkg/__init__.py"), "").unwrap();
    fs::write(root.join("pkg/sub/__init__.py"), "").unwrap();
    fs::write(root.join("pkg/other/__init__.py"), "").unwrap();
    fs::write(root.join(ANCHOR), ANCHOR_TEXT).unwrap();
}

fn run_seed(seed: u64, steps: usize) -> Option<String> {
    let mut rng = Rng(seed.wrapping_mul(0x9E3779B97F4A7C15) | 1);
    let dir_a = tempfile::tempdir().unwrap();
    let root_a = dir_a.path().canonicalize().unwrap();

    // initial (valid) contents
    let mut valid: BTreeMap<String, String> = BTreeMap::new();
    for f in FILES {
        let mut t = gen_file(&mut rng, f);
        while rustpython_parser::parse(&t, rustpython_parser::Mode::Module, "").is_err() {
            t = gen_file(&mut rng, f);
        }
        valid.insert(f.to_string(), t);
    }
    write_tree(&root_a, &valid);
    let a = FixtureDatabase::new();
    a.scan_workspace(&root_a);

    let mut broken_now: BTreeSet<String> = BTreeSet::new();
    let mut log = String::new();

    for step in 0..steps {
        let f = if rng.chance(25) { rng.pick(LATE_FILES).to_string() } else { rng.pick(FILES).to_string() };
        let path = root_a.join(&f);
        if rng.chance(20) && valid.contains_key(&f) {
            // didClose (every valid version was auto-saved, so nothing unsaved is lost)
            log.push_str(&format!("--- step {} close {}\n", step, f));
            a.document_closed(&path);
            a.cleanup_file_cache(&path);
            broken_now.remove(&f);
            let mut noise = false;
            for bf in &broken_now {
                let bp = root_a.join(bf);
                for e in a.definitions.iter() {
                    if e.value().iter().filter(|d| d.file_path == bp).count() > 1 {
                        noise = true;
                    }
                }
            }
            if noise && std::env::var("FUZZ_KEEP_BINDING").is_err() {
                continue;
            }
            // compare below against the fresh server, with no last-changed document
            let dir_b = tempfile::tempdir().unwrap();
            let root_b = dir_b.path().canonicalize().unwrap();
            write_tree(&root_b, &valid);
            let b = FixtureDatabase::new();
            b.scan_workspace(&root_b);
            let oa = observe(&a, &root_a, &broken_now, None);
            let ob = observe(&b, &root_b, &broken_now, None);
            if oa != ob {
                let mut report = format!("seed {} step {} (closed {}, broken now: {:?})\n", seed, step, f, broken_now);
                let keys: BTreeSet<&String> = oa.keys().chain(ob.keys()).collect();
                for k in keys {
                    if oa.get(k) != ob.get(k) {
                        report.push_str(&format!("  {}\n     history: {:?}\n     fresh:   {:?}\n", k, oa.get(k), ob.get(k)));
                    }
                }
                let dump = PathBuf::from(format!("/tmp/wt/h3_C06/target/fuzz_seed_{}.log", seed));
                let _ = fs::write(&dump, format!("{}{}", log, report));
                return Some(report);
            }
            continue;
        }
        let mut action = rng.below(10);
        if !valid.contains_key(&f) {
            action = 0; // a file the editor creates: first version is generated
        }
        let text;
        if action < 6 {
            let mut t = gen_file(&mut rng, &f);
            while !valid.contains_key(&f)
                && rustpython_parser::parse(&t, rustpython_parser::Mode::Module, "").is_err()
            {
                t = gen_file(&mut rng, &f);
            }
            text = t;
        } else if action < 8 {
            text = break_it(&mut rng, &valid[&f]);
        } else if action < 9 {
            // a broken version of something else entirely
            let other = gen_file(&mut rng, &f);
            text = break_it(&mut rng, &other);
        } else {
            // re-send the latest valid text
            text = valid[&f].clone();
        }
        let parses = rustpython_parser::parse(&text, rustpython_parser::Mode::Module, "").is_ok();
        if parses {
            valid.insert(f.clone(), text.clone());
            broken_now.remove(&f);
            // auto-save
            fs::create_dir_all(path.parent().unwrap()).unwrap();
            fs::write(&path, &text).unwrap();
        } else {
            broken_now.insert(f.clone());
        }
        log.push_str(&format!("--- step {} change {} (parses: {})\n{}\n", step, f, parses, text));
        a.document_opened(&path);
        a.analyze_file(path.clone(), &text);

        let mut known_binding_noise = false;
        for bf in &broken_now {
            let bp = root_a.join(bf);
            for e in a.definitions.iter() {
                if e.value().iter().filter(|d| d.file_path == bp).count() > 1 {
                    known_binding_noise = true;
                }
            }
        }
        if known_binding_noise && std::env::var("FUZZ_KEEP_BINDING").is_err() {
            continue;
        }
        // Reference: fresh server on the latest valid contents
        let dir_b = tempfile::tempdir().unwrap();
        let root_b = dir_b.path().canonicalize().unwrap();
        write_tree(&root_b, &valid);
        let b = FixtureDatabase::new();
        b.scan_workspace(&root_b);
        let pb = root_b.join(&f);
        b.document_opened(&pb);
        b.analyze_file(pb.clone(), &valid[&f]);

        let last = if broken_now.contains(&f) { None } else { Some(f.as_str()) };
        let oa = observe(&a, &root_a, &broken_now, last);
        let ob = observe(&b, &root_b, &broken_now, last);
        if oa != ob {
            let mut report = format!("seed {} step {} (changed {}, broken now: {:?})\n", seed, step, f, broken_now);
            let keys: BTreeSet<&String> = oa.keys().chain(ob.keys()).collect();
            for k in keys {
                if oa.get(k) != ob.get(k) {
                    report.push_str(&format!("  {}\n     history: {:?}\n     fresh:   {:?}\n", k, oa.get(k), ob.get(k)));
                }
            }
            let dump = PathBuf::from(format!("/tmp/wt/h3_C06/target/fuzz_seed_{}.log", seed));
            let mut full = log.clone();
            full.push_str("=== latest valid contents\n");
            for (k, v) in &valid {
                full.push_str(&format!("### {}\n{}\n", k, v));
            }
            full.push_str(&report);
            let _ = fs::write(&dump, full);
            return Some(report);
        }
    }
    None
}

#[test]
fn fuzz() {
    let from: u64 = std::env::var("FUZZ_FROM").ok().and_then(|s| s.parse().ok()).unwrap_or(1);
    let n: u64 = std::env::var("FUZZ_N").ok().and_then(|s| s.parse().ok()).unwrap_or(20);
    let steps: usize = std::env::var("FUZZ_STEPS").ok().and_then(|s| s.parse().ok()).unwrap_or(12);
    let mut failures = 0;
    for seed in from..from + n {
        if let Some(report) = run_seed(seed, steps) {
            failures += 1;
            println!("{}", report);
        }
    }
    println!("{} of {} seeds diverged", failures, n);
    assert_eq!(failures, 0);
}
