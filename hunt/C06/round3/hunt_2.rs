//! C06 hunt 2: a helper module that is opened with an unparsable buffer and closed again
//! while the workspace scan is still walking is never indexed: `cleanup_file_cache` leaves the
//! on-disk text in the text cache "as the scan's record that the file has been analysed",
//! and `analyze_imported_module_once` then takes that entry for another thread's claim.
use pytest_language_server::FixtureDatabase;
use std::fs;
use std::sync::Arc;

const CONFTEST: &str = "from helpers import *\n";
const HELPERS: &str = "import pytest\n\n@pytest.fixture\ndef helper_fixture():\n    return 1\n";
const TEST: &str = "def test_it(helper_fixture):\n    pass\n";

fn build(root: &std::path::Path) {
    fs::write(root.join("conftest.py"), CONFTEST).unwrap();
    fs::write(root.join("helpers.py"), HELPERS).unwrap();
    fs::write(root.join("test_it.py"), TEST).unwrap();
    // ballast that keeps the walk busy for a moment (a workspace of realistic size)
    for d in 0..30 {
        let dir = root.join(format!("pkg{}", d));
        fs::create_dir_all(&dir).unwrap();
        for f in 0..100 {
            fs::write(
                dir.join(format!("test_m{}.py", f)),
                "import pytest\n\n@pytest.fixture\ndef local():\n    return 1\n\ndef test_x(local):\n    pass\n",
            )
            .unwrap();
        }
    }
}

fn goto_from_test(db: &FixtureDatabase, root: &std::path::Path) -> Option<(String, usize)> {
    db.find_fixture_definition(&root.join("test_it.py"), 0, 12)
        .map(|d| (d.file_path.file_name().unwrap().to_string_lossy().to_string(), d.line))
}

#[test]
fn helper_opened_broken_and_closed_during_the_scan_is_still_indexed() {
    let dir = tempfile::tempdir().unwrap();
    let root = dir.path().canonicalize().unwrap();
    build(&root);
    let helpers = root.join("helpers.py");

    // Reference: fresh server, no editor activity.
    let fresh = FixtureDatabase::new();
    fresh.scan_workspace(&root);
    let expected = goto_from_test(&fresh, &root);
    assert_eq!(expected, Some(("helpers.py".to_string(), 4)));

    // History: initialize (scan in the background, as main.rs does); the editor restores a
    // tab with helpers.py in a state that does not parse, the user closes the tab.
    let db = Arc::new(FixtureDatabase::new());
    let scan = {
        let db = Arc::clone(&db);
        let root = root.clone();
        std::thread::spawn(move || db.scan_workspace(&root))
    };
    // wait until the scan has started (it publishes the workspace root first thing)
    while db.workspace_root.lock().unwrap().is_none() {
        std::thread::yield_now();
    }
    // didOpen (main.rs: document_opened + analyze_file)
    db.document_opened(&helpers);
    db.analyze_file(helpers.clone(), "import pytest\n\n@pytest.fixture\ndef helper_fixture(:\n");
    // didClose (main.rs: document_closed + cleanup_file_cache); nothing was saved
    db.document_closed(&helpers);
    db.cleanup_file_cache(&helpers);
    let closed_while_scanning = !scan.is_finished();
    scan.join().unwrap();
    assert!(closed_while_scanning, "the scan was over too early for this schedule; enlarge the ballast");

    let actual = goto_from_test(&db, &root);
    println!("fresh server : test_it.py::helper_fixture -> {:?}", expected);
    println!("after history: test_it.py::helper_fixture -> {:?}", actual);
    println!(
        "helpers.py indexed: {}",
        db.file_definitions.contains_key(&helpers)
    );
    assert_eq!(actual, expected);
}
