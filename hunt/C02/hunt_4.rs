//! C02 hunt 4: class-level overrides in one file. The "same file" level of the cascade is
//! "the definition with the greatest line number", with no notion of the class a fixture
//! belongs to. With a module-level fixture and two test classes that each override it:
//!  - TestA.foo's parameter goes to TestB.foo (a sibling class's override) instead of the module fixture
//!  - TestA.test_a binds to TestB.foo instead of TestA.foo
//!  - the module-level test binds to TestB.foo instead of the module fixture
//!
//! ROOT CAUSE  src/fixtures/resolver.rs:202-206 `.filter(|def| def.file_path == file_path && filter(def))
//!   .max_by_key(|def| def.line)`; FixtureDefinition / FixtureUsage (types.rs) do not record the enclosing class
//!   although analyzer.rs:337-367 descends into class bodies and registers their fixtures under the plain name.
//! CLAUSE  "never to the overriding fixture itself ... next definition outward" (it goes sideways to a sibling
//!   class's override) and "each test binds to the innermost override visible to it". Partly covered: the statement's
//!   list of placements starts at "test module" and does not name the class level.
//! FIX  add class_path: Vec<String> to FixtureDefinition/FixtureUsage (filled in visit_stmt when recursing through
//!   ClassDef); in Priority 1 keep only defs whose class_path is a prefix of the usage's, longest prefix first.
//! RUN  RUST_BACKTRACE=0 CARGO_NET_OFFLINE=true cargo test --offline --test hunt_4
//! OUTPUT (unmodified tree)
//!   test class_level_override_parameter_goes_to_module_fixture ... FAILED
//!     TestA.foo(foo) -> module-level foo   left: Some(17)  right: Some(4)
//!   test tests_bind_to_innermost_visible_override ... FAILED
//!     TestA.test_a -> TestA.foo            left: Some(17)  right: Some(9)
//!   (also wrong, seen in exploration: TestB.foo(foo) -> 9 instead of 4 is masked here because TestA is checked
//!    first; test_c(foo) -> 17 instead of 4)
use pytest_language_server::FixtureDatabase;
use std::fs;
use std::path::Path;

fn w(p: &Path, s: &str) {
    fs::create_dir_all(p.parent().unwrap()).unwrap();
    fs::write(p, s).unwrap();
}

const SRC: &str = "\
import pytest

@pytest.fixture
def foo():
    return 0

class TestA:
    @pytest.fixture
    def foo(self, foo):
        return foo + 1

    def test_a(self, foo):
        pass

class TestB:
    @pytest.fixture
    def foo(self, foo):
        return foo + 2

    def test_b(self, foo):
        pass

def test_c(foo):
    pass
";

fn line_of(db: &FixtureDatabase, f: &Path, line0: u32, col: u32) -> Option<usize> {
    db.find_fixture_definition(f, line0, col).map(|d| d.line)
}

#[test]
fn class_level_override_parameter_goes_to_module_fixture() {
    let tmp = tempfile::tempdir().unwrap();
    let ws = tmp.path().canonicalize().unwrap().join("ws");
    let f = ws.join("test_k.py");
    w(&f, SRC);
    let db = FixtureDatabase::new();
    db.scan_workspace(&ws);
    // `    def foo(self, foo):` in TestA (line 9, 0-based 8), cursor on the parameter
    assert_eq!(line_of(&db, &f, 8, 18), Some(4), "TestA.foo(foo) -> module-level foo");
    // same in TestB (this one happens to work: the only later definition is itself)
    assert_eq!(line_of(&db, &f, 16, 18), Some(4), "TestB.foo(foo) -> module-level foo");
}

#[test]
fn tests_bind_to_innermost_visible_override() {
    let tmp = tempfile::tempdir().unwrap();
    let ws = tmp.path().canonicalize().unwrap().join("ws");
    let f = ws.join("test_k.py");
    w(&f, SRC);
    let db = FixtureDatabase::new();
    db.scan_workspace(&ws);
    assert_eq!(line_of(&db, &f, 19, 21), Some(17), "TestB.test_b -> TestB.foo");
    assert_eq!(line_of(&db, &f, 11, 21), Some(9), "TestA.test_a -> TestA.foo");
    assert_eq!(line_of(&db, &f, 22, 11), Some(4), "module-level test_c -> module-level foo");
}
