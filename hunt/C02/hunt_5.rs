//! C02 hunt 5: "all cursor columns". Usage columns are stored as BYTE offsets into the line
//! (analyzer.rs get_char_position_from_offset), the word under the cursor is extracted by CHARACTER
//! index (string_utils.rs extract_word_at_position) and the LSP column is compared with the byte
//! range unchanged. With a non-ASCII identifier earlier on the definition line the byte range of
//! the self-named parameter is shifted to the right: on its first columns go-to-definition finds
//! nothing and find-references (replicating providers/references.rs) falls back to "cursor is on
//! the definition name" and answers for the OVERRIDING fixture instead of the overridden one.
//!
//! ROOT CAUSE  usage columns are byte offsets (analyzer.rs:223-231, used l.524-529 / 574-576); the word under the
//!   cursor is taken by character index (string_utils.rs:68-109); resolver.rs:46-47 and 331-332 compare the LSP
//!   column with the byte range unconverted. `été` = 3 chars / 5 bytes, so the parameter's range is [15,18) instead of
//!   [13,16). In providers/references.rs:29-86 the miss falls through to find_fixture_at_position's "definition line
//!   and word == def.name" branch (resolver.rs:345-358) + get_definition_at_line = the overriding fixture.
//! CLAUSE  "the cursor decides which fixture ... all cursor columns on a definition line that carries both the function
//!   name and the same-named parameter". Covered by the quantifier; the defect is a general position-encoding bug,
//!   C02 is where it flips the answer from one fixture to the other.
//! FIX  at the top of find_fixture_definition / find_fixture_at_position:
//!   let byte_col = line_content.char_indices().nth(character as usize).map_or(line_content.len(), |(b, _)| b);
//!   and compare byte_col with usage.start_char..usage.end_char (strictly: count UTF-16 units).
//! RUN  RUST_BACKTRACE=0 CARGO_NET_OFFLINE=true cargo test --offline --test hunt_5
//! OUTPUT (unmodified tree)
//!   test every_column_of_the_parameter_resolves_to_the_parent ... FAILED
//!   col 13: definition -> None; references answer for Some(("$TMP/ws/test_u.py", 4))
//!   col 14: definition -> None; references answer for Some(("$TMP/ws/test_u.py", 4))
use pytest_language_server::FixtureDatabase;
use std::fs;
use std::path::Path;

fn w(p: &Path, s: &str) {
    fs::create_dir_all(p.parent().unwrap()).unwrap();
    fs::write(p, s).unwrap();
}

#[test]
fn every_column_of_the_parameter_resolves_to_the_parent() {
    let tmp = tempfile::tempdir().unwrap();
    let ws = tmp.path().canonicalize().unwrap().join("ws");
    w(
        &ws.join("conftest.py"),
        "import pytest\n\n@pytest.fixture\ndef foo():\n    return 0\n\n@pytest.fixture\ndef été():\n    return 0\n",
    );
    //                                                          0123456789012345678
    let f = ws.join("test_u.py"); //                            def foo(été, foo):
    w(&f, "import pytest\n\n@pytest.fixture\ndef foo(été, foo):\n    return foo + 1\n");
    let db = FixtureDatabase::new();
    db.scan_workspace(&ws);

    let conftest = ws.join("conftest.py");
    // function name: columns 4..=6 -> not a usage; references concern the overriding fixture (fine)
    for col in 4..=6 {
        assert!(db.find_fixture_definition(&f, 3, col).is_none());
    }
    // parameter `foo`: columns 13..=15 (UTF-16 units == characters here)
    let mut failures = Vec::new();
    for col in 13..=15u32 {
        // go-to-definition
        let d = db.find_fixture_definition(&f, 3, col);
        let ok_def = d.as_ref().is_some_and(|d| d.file_path == conftest && d.line == 4);
        // find-references, as providers/references.rs does it
        let name = db.find_fixture_at_position(&f, 3, col);
        let target = d.clone().or_else(|| {
            name.as_ref().and_then(|n| db.get_definition_at_line(&f, 4, n))
        });
        let ok_ref = target.as_ref().is_some_and(|d| d.file_path == conftest);
        if !ok_def || !ok_ref {
            failures.push(format!(
                "col {col}: definition -> {:?}; references answer for {:?}",
                d.map(|d| (d.file_path, d.line)),
                target.map(|d| (d.file_path, d.line))
            ));
        }
    }
    assert!(failures.is_empty(), "{}", failures.join("\n"));
}
