//! C02 hunt 2: an overriding fixture that lives in a helper module and is brought into the chain
//! by a conftest.py import (`from helpers.fixmod import foo`). pytest registers it at the level of
//! the importing conftest, so its self-named parameter is the next definition outward *from that
//! conftest*. The resolver instead starts from the directory of the helper module.
//!
//! ROOT CAUSE  src/fixtures/resolver.rs:215 `let mut current_dir = file_path.parent()?` with file_path = the module
//!   containing the `def`. A fixture that enters the chain through `from X import foo` / `import *` / pytest_plugins
//!   in a conftest is registered at that conftest's level; the walk must start there. Imports are only consulted
//!   in the other direction (resolver.rs:236-259, imports.rs:575 find_imported_definition). Relative of hunt_1
//!   (both resolve from where the def is written instead of where it is registered) but another branch / fix.
//! CLAUSE  "goes to the next definition outward in the shadowing order" / "override chains of any length and
//!   placement"; the rationale names "mixed providers (imported parent, plugin parent)". Covered.
//! FIX  when the excluded def's file is neither the requesting file nor a conftest.py, find the conftest(s) C whose
//!   find_imported_definition(name, C, |_| true) is the excluded def and run the cascade from C (Priority 1 skipped,
//!   filter |d| d != excluded).
//! RUN  RUST_BACKTRACE=0 CARGO_NET_OFFLINE=true cargo test --offline --test hunt_2
//! OUTPUT (unmodified tree)
//!   test imported_override_below_a_deeper_conftest_goes_outward ... FAILED
//!   test imported_override_in_sibling_tree_resolves_to_parent_conftest ... FAILED
//!   ... parameter of the imported override must go outward to /ws/conftest.py, got "$TMP/ws/tests/unit/conftest.py"
//!   ... self-named parameter of the imported override must go to tests/conftest.py
//!     left: None   right: Some("$TMP/ws/tests/conftest.py")
//!   test result: FAILED. 0 passed; 2 failed
use pytest_language_server::FixtureDatabase;
use std::fs;
use std::path::Path;

fn w(p: &Path, s: &str) {
    fs::create_dir_all(p.parent().unwrap()).unwrap();
    fs::write(p, s).unwrap();
}

const BASE: &str = "import pytest\n\n@pytest.fixture\ndef foo():\n    return 0\n";
const OVERRIDE: &str = "import pytest\n\n@pytest.fixture\ndef foo(foo):\n    return foo + 1\n";

/// tests/unit/conftest.py imports the override from /ws/helpers/fixmod.py; the parent is
/// tests/conftest.py, which is not an ancestor of helpers/ -> the parameter resolves to nothing.
#[test]
fn imported_override_in_sibling_tree_resolves_to_parent_conftest() {
    let tmp = tempfile::tempdir().unwrap();
    let ws = tmp.path().canonicalize().unwrap().join("ws");
    w(&ws.join("tests/conftest.py"), BASE);
    w(&ws.join("tests/unit/conftest.py"), "from helpers.fixmod import foo\n");
    w(&ws.join("helpers/__init__.py"), "");
    w(&ws.join("helpers/fixmod.py"), OVERRIDE);
    w(&ws.join("tests/unit/test_a.py"), "def test_a(foo):\n    pass\n");

    let db = FixtureDatabase::new();
    db.scan_workspace(&ws);

    // the test binds to the imported override (this part works)
    let d = db.find_fixture_definition(&ws.join("tests/unit/test_a.py"), 0, 11).unwrap();
    assert_eq!(d.file_path, ws.join("helpers/fixmod.py"));

    // cursor on the parameter of `def foo(foo)` in helpers/fixmod.py
    let d = db.find_fixture_definition(&ws.join("helpers/fixmod.py"), 3, 9);
    assert_eq!(
        d.as_ref().map(|d| d.file_path.clone()),
        Some(ws.join("tests/conftest.py")),
        "self-named parameter of the imported override must go to tests/conftest.py"
    );
    // and the parent must list that parameter as a reference
    let parent = db.get_definition_at_line(&ws.join("tests/conftest.py"), 4, "foo").unwrap();
    let refs = db.find_references_for_definition(&parent);
    assert!(
        refs.iter().any(|u| u.file_path == ws.join("helpers/fixmod.py") && u.line == 4),
        "references of the parent miss the overriding fixture's parameter: {:?}",
        refs
    );
}

/// tests/conftest.py imports the override from tests/unit/shared.py; a deeper conftest
/// (tests/unit/conftest.py) overrides it again. From shared.py the walk meets tests/unit/conftest.py
/// first: navigation goes INWARD (to the fixture that overrides this one) and a false cycle appears.
#[test]
fn imported_override_below_a_deeper_conftest_goes_outward() {
    let tmp = tempfile::tempdir().unwrap();
    let ws = tmp.path().canonicalize().unwrap().join("ws");
    w(&ws.join("conftest.py"), BASE);
    w(&ws.join("tests/__init__.py"), "");
    w(&ws.join("tests/unit/__init__.py"), "");
    w(&ws.join("tests/conftest.py"), "from tests.unit.shared import foo\n");
    w(&ws.join("tests/unit/shared.py"), OVERRIDE);
    w(&ws.join("tests/unit/conftest.py"), OVERRIDE);
    w(&ws.join("tests/unit/test_a.py"), "def test_a(foo):\n    pass\n");

    let db = FixtureDatabase::new();
    db.scan_workspace(&ws);

    let d = db.find_fixture_definition(&ws.join("tests/unit/test_a.py"), 0, 11).unwrap();
    assert_eq!(d.file_path, ws.join("tests/unit/conftest.py"));
    let d = db.find_fixture_definition(&ws.join("tests/unit/conftest.py"), 3, 9).unwrap();
    assert_eq!(d.file_path, ws.join("tests/unit/shared.py"));

    let d = db.find_fixture_definition(&ws.join("tests/unit/shared.py"), 3, 9).unwrap();
    assert_eq!(
        d.file_path,
        ws.join("conftest.py"),
        "parameter of the imported override must go outward to /ws/conftest.py, got {:?}",
        d.file_path
    );
    assert!(db.detect_fixture_cycles().is_empty(), "false cycle reported");
}
