//! C02 hunt 3: a test module that imports an overriding fixture (`from .fixmod import foo`).
//! The imported fixture is the innermost override visible to the tests of that module, but the
//! resolver's "same file" level only looks at definitions physically located in the file, and
//! imports are only honoured for conftest.py files.
//!
//! ROOT CAUSE  src/fixtures/resolver.rs:202-212 Priority 1 only accepts def.file_path == file_path; the imported-
//!   fixture branch (l.236-259) exists only for conftest.py paths (same omission in compute_available_fixtures
//!   l.510-523). fixmod.py IS scanned (scanner.rs scan_imported_fixture_modules follows test-file imports).
//! CLAUSE  "each test binds to the innermost override visible to it" / "all files that use the name at any depth".
//!   Covered (a same-file link provided through an import).
//! FIX  right after Priority 1:
//!   if self.is_fixture_imported_in_file(fixture_name, file_path) {
//!       if let Some(d) = self.find_imported_definition(fixture_name, file_path, &filter) { return Some(d); } }
//! RUN  RUST_BACKTRACE=0 CARGO_NET_OFFLINE=true cargo test --offline --test hunt_3
//! OUTPUT (unmodified tree)
//!   test test_binds_to_override_imported_into_its_module ... FAILED
//!   ... explicit import: test must bind to the override imported into its module, got "$TMP/ws/tests/conftest.py"
//!     left: "$TMP/ws/tests/conftest.py"   right: "$TMP/ws/tests/fixmod.py"
use pytest_language_server::FixtureDatabase;
use std::fs;
use std::path::Path;

fn w(p: &Path, s: &str) {
    fs::create_dir_all(p.parent().unwrap()).unwrap();
    fs::write(p, s).unwrap();
}

#[test]
fn test_binds_to_override_imported_into_its_module() {
    let tmp = tempfile::tempdir().unwrap();
    let ws = tmp.path().canonicalize().unwrap().join("ws");
    w(&ws.join("tests/__init__.py"), "");
    w(&ws.join("tests/conftest.py"), "import pytest\n\n@pytest.fixture\ndef foo():\n    return 0\n");
    w(&ws.join("tests/fixmod.py"), "import pytest\n\n@pytest.fixture\ndef foo(foo):\n    return foo + 1\n");
    w(&ws.join("tests/test_a.py"), "from .fixmod import foo\n\ndef test_a(foo):\n    pass\n");
    w(&ws.join("tests/test_b.py"), "from .fixmod import *\n\ndef test_b(foo):\n    pass\n");

    let db = FixtureDatabase::new();
    db.scan_workspace(&ws);
    let fixmod = ws.join("tests/fixmod.py");
    assert!(db.file_definitions.contains_key(&fixmod), "fixmod.py was scanned");

    // the override's own parameter goes to the conftest (fine)
    let d = db.find_fixture_definition(&fixmod, 3, 9).unwrap();
    assert_eq!(d.file_path, ws.join("tests/conftest.py"));

    for (file, what) in [("tests/test_a.py", "explicit import"), ("tests/test_b.py", "star import")] {
        let d = db.find_fixture_definition(&ws.join(file), 2, 11).unwrap();
        assert_eq!(
            d.file_path, fixmod,
            "{what}: test must bind to the override imported into its module, got {:?}",
            d.file_path
        );
    }
    let over = db.get_definition_at_line(&fixmod, 4, "foo").unwrap();
    assert_eq!(db.find_references_for_definition(&over).len(), 2, "override has the two tests as references");
}
