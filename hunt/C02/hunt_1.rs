//! C02 hunt 1: the self-named parameter of a *plugin* (pytest11 entry point, editable install in
//! the workspace) or *third-party* (site-packages) fixture is resolved by walking the conftest.py
//! hierarchy upward from the plugin file's own directory. A conftest.py that sits above the plugin
//! file on disk (and that, in pytest's shadowing order, is *inside* the plugin level) is therefore
//! returned: navigation goes inward instead of outward, and a false dependency cycle appears.
//!
//! ROOT CAUSE  src/fixtures/resolver.rs:185-304 find_closest_definition_with_filter always runs Priority 1
//!   (same file) and Priority 2 (conftest walk from file_path.parent(), l.214-265) for the file the parameter
//!   is written in. For an is_plugin / is_third_party definition that file's place on disk says nothing about
//!   its place in the shadowing order (plugins are registered globally, below every conftest).
//!   Callers: find_fixture_definition l.60, find_references_for_definition l.428, compute_fixture_cycles l.1561,
//!   detect_scope_mismatches_in_file l.1684.
//! CLAUSE  "navigation from the parameter goes to the next definition outward in the shadowing order ... override
//!   chains of any length and placement (test module over conftest over parent conftest over plugin over
//!   third-party)" - squarely covered.
//! FIX  in find_closest_definition_excluding: if the excluded def is_plugin||is_third_party skip Priority 1+2,
//!   if it is_third_party skip Priority 3 as well (start the cascade after the excluded definition's own level).
//! RUN  RUST_BACKTRACE=0 CARGO_NET_OFFLINE=true cargo test --offline --test hunt_1
//! OUTPUT (unmodified tree)
//!   test third_party_link_never_resolves_to_a_workspace_conftest ... FAILED
//!   test plugin_link_resolves_outward_to_third_party ... FAILED
//!   ... third-party fixture's self-named parameter resolved to "$TMP/ws/conftest.py"
//!     left: "$TMP/ws/conftest.py"   right: "$TMP/ws/.venv/lib/python3.12/site-packages/_pytest/builtin.py"
//!   ... plugin fixture's self-named parameter must go outward to the third-party fixture, got "$TMP/ws/conftest.py"
//!     left: "$TMP/ws/conftest.py"   right: "$TMP/ws/.venv/lib/python3.12/site-packages/pytest_tp/plugin.py"
//!   test result: FAILED. 0 passed; 2 failed
use pytest_language_server::FixtureDatabase;
use std::fs;
use std::path::Path;

fn w(p: &Path, s: &str) {
    fs::create_dir_all(p.parent().unwrap()).unwrap();
    fs::write(p, s).unwrap();
}

const OVERRIDE: &str = "import pytest\n\n@pytest.fixture\ndef foo(foo):\n    return foo + 1\n";
const BASE: &str = "import pytest\n\n@pytest.fixture\ndef foo():\n    return 0\n";

/// chain: tests/test_a.py::foo -> conftest.py::foo -> src/myplug/plugin.py::foo (plugin) ->
/// site-packages/pytest_tp/plugin.py::foo (third-party)
#[test]
fn plugin_link_resolves_outward_to_third_party() {
    let tmp = tempfile::tempdir().unwrap();
    let ws = tmp.path().canonicalize().unwrap().join("ws");
    let sp = ws.join(".venv/lib/python3.12/site-packages");
    // third-party plugin
    w(&sp.join("pytest_tp-1.0.dist-info/entry_points.txt"), "[pytest11]\ntp = pytest_tp.plugin\n");
    w(&sp.join("pytest_tp/__init__.py"), "");
    w(&sp.join("pytest_tp/plugin.py"), BASE);
    // workspace-local editable plugin
    w(&sp.join("myplug-0.1.dist-info/entry_points.txt"), "[pytest11]\nmyplug = myplug.plugin\n");
    w(
        &sp.join("myplug-0.1.dist-info/direct_url.json"),
        &format!(
            "{{\"url\": \"file://{}\", \"dir_info\": {{\"editable\": true}}}}",
            ws.join("src").display()
        ),
    );
    w(&sp.join("__editable__.myplug-0.1.pth"), &format!("{}\n", ws.join("src").display()));
    w(&ws.join("src/myplug/__init__.py"), "");
    w(&ws.join("src/myplug/plugin.py"), OVERRIDE);
    w(&ws.join("conftest.py"), OVERRIDE);
    w(&ws.join("tests/test_a.py"), &format!("{OVERRIDE}\ndef test_a(foo):\n    pass\n"));

    let db = FixtureDatabase::new();
    db.scan_workspace(&ws);

    let plugin = ws.join("src/myplug/plugin.py");
    let third = sp.join("pytest_tp/plugin.py");
    // sanity: the inner links are right
    let d = db.find_fixture_definition(&ws.join("tests/test_a.py"), 3, 9).unwrap();
    assert_eq!(d.file_path, ws.join("conftest.py"));
    let d = db.find_fixture_definition(&ws.join("conftest.py"), 3, 9).unwrap();
    assert_eq!(d.file_path, plugin);
    assert!(d.is_plugin && !d.is_third_party);

    // the plugin link: `def foo(foo)` in src/myplug/plugin.py, cursor on the parameter
    let d = db.find_fixture_definition(&plugin, 3, 9).expect("parameter must resolve");
    assert_eq!(
        d.file_path, third,
        "plugin fixture's self-named parameter must go outward to the third-party fixture, got {:?}",
        d.file_path
    );
    let cycles = db.detect_fixture_cycles();
    assert!(cycles.is_empty(), "false cycle reported: {:?}", cycles.iter().map(|c| &c.cycle_path).collect::<Vec<_>>());
}

/// the same with the third-party link: a site-packages plugin overriding a pytest builtin
#[test]
fn third_party_link_never_resolves_to_a_workspace_conftest() {
    let tmp = tempfile::tempdir().unwrap();
    let ws = tmp.path().canonicalize().unwrap().join("ws");
    let sp = ws.join(".venv/lib/python3.12/site-packages");
    w(&sp.join("_pytest/__init__.py"), "");
    w(&sp.join("_pytest/builtin.py"), BASE);
    w(&sp.join("pytest_tp-1.0.dist-info/entry_points.txt"), "[pytest11]\ntp = pytest_tp.plugin\n");
    w(&sp.join("pytest_tp/__init__.py"), "");
    w(&sp.join("pytest_tp/plugin.py"), OVERRIDE);
    w(&ws.join("conftest.py"), OVERRIDE);
    w(&ws.join("test_a.py"), "def test_a(foo):\n    pass\n");

    let db = FixtureDatabase::new();
    db.scan_workspace(&ws);

    let d = db
        .find_fixture_definition(&sp.join("pytest_tp/plugin.py"), 3, 9)
        .expect("parameter must resolve");
    assert_eq!(
        d.file_path,
        sp.join("_pytest/builtin.py"),
        "third-party fixture's self-named parameter resolved to {:?}",
        d.file_path
    );
}
