//! C02 hunt 5: of two modules listed in `pytest_plugins`, the one listed LAST shadows the other.
use pytest_language_server::FixtureDatabase;
use std::fs;
use std::path::{Path, PathBuf};

#[allow(dead_code)]
const BASE: &str = "import pytest\n\n@pytest.fixture\ndef foo():\n    return 1\n";
#[allow(dead_code)]
const OVERRIDE: &str = "import pytest\n\n@pytest.fixture\ndef foo(foo):\n    return foo\n";

/// Write the files below a fresh temporary directory and scan it as a workspace.
fn workspace(files: &[(&str, &str)]) -> (tempfile::TempDir, PathBuf, FixtureDatabase) {
    let td = tempfile::tempdir().unwrap();
    let root = td.path().canonicalize().unwrap();
    for (p, c) in files {
        let fp = root.join(p);
        fs::create_dir_all(fp.parent().unwrap()).unwrap();
        fs::write(&fp, c).unwrap();
    }
    let db = FixtureDatabase::new();
    db.scan_workspace(&root);
    (td, root, db)
}

/// Go-to-definition at (0-based line, column) of `file`, as "relative/path.py:LINE" (1-based).
fn goto(db: &FixtureDatabase, root: &Path, file: &str, line: u32, col: u32) -> String {
    match db.find_fixture_definition(&root.join(file), line, col) {
        Some(d) => format!(
            "{}:{}",
            d.file_path.strip_prefix(root).unwrap_or(&d.file_path).display(),
            d.line
        ),
        None => "None".to_string(),
    }
}

/// References of the definition of `name` at 1-based `line` of `file`, as "path:LINE:COL".
#[allow(dead_code)]
fn refs(db: &FixtureDatabase, root: &Path, file: &str, line: usize, name: &str) -> Vec<String> {
    let d = db
        .get_definition_at_line(&root.join(file), line, name)
        .expect("definition");
    let mut v: Vec<String> = db
        .find_references_for_definition(&d)
        .iter()
        .map(|u| {
            format!(
                "{}:{}:{}",
                u.file_path.strip_prefix(root).unwrap().display(),
                u.line,
                u.start_char
            )
        })
        .collect();
    v.sort();
    v
}


/// conftest.py: `pytest_plugins = ["p1", "p2"]`. pytest imports and registers the modules in
/// list order; for location-less plugins a later registration shadows an earlier one, which is
/// exactly why p2.py can write `def foo(foo)` to wrap p1's fixture.
///  - the parameter of p2.py:foo goes to p1.py:4 (this works);
///  - a test binds to the innermost override, p2.py:4.
#[test]
fn last_listed_plugin_module_wins() {
    let (_td, root, db) = workspace(&[
        ("p1.py", BASE),
        ("p2.py", OVERRIDE),
        ("conftest.py", "pytest_plugins = ['p1', 'p2']\n"),
        ("test_a.py", "def test_x(foo):\n    pass\n"),
    ]);
    assert_eq!(goto(&db, &root, "p2.py", 3, 8), "p1.py:4");
    assert_eq!(goto(&db, &root, "test_a.py", 0, 11), "p2.py:4");
    // references from the function name of the override include the test
    assert_eq!(refs(&db, &root, "p2.py", 4, "foo"), vec!["test_a.py:1:11"]);
}
