//! C02 hunt, extras (variants / adjacent to the statement).
use pytest_language_server::FixtureDatabase;
use std::fs;
use std::path::{Path, PathBuf};

#[allow(dead_code)]
const BASE: &str = "import pytest\n\n@pytest.fixture\ndef foo():\n    return 1\n";
#[allow(dead_code)]
const OVERRIDE: &str = "import pytest\n\n@pytest.fixture\ndef foo(foo):\n    return foo\n";

/// Write the files below a fresh temporary directory and scan it as a workspace.
fn workspace(files: &[(&str, &str)]) -> (tempfile::TempDir, PathBuf, FixtureDatabase) {
    let td = tempfile::tempdir().unwrap();
    let root = td.path().canonicalize().unwrap();
    for (p, c) in files {
        let fp = root.join(p);
        fs::create_dir_all(fp.parent().unwrap()).unwrap();
        fs::write(&fp, c).unwrap();
    }
    let db = FixtureDatabase::new();
    db.scan_workspace(&root);
    (td, root, db)
}

/// Go-to-definition at (0-based line, column) of `file`, as "relative/path.py:LINE" (1-based).
fn goto(db: &FixtureDatabase, root: &Path, file: &str, line: u32, col: u32) -> String {
    match db.find_fixture_definition(&root.join(file), line, col) {
        Some(d) => format!(
            "{}:{}",
            d.file_path.strip_prefix(root).unwrap_or(&d.file_path).display(),
            d.line
        ),
        None => "None".to_string(),
    }
}

/// References of the definition of `name` at 1-based `line` of `file`, as "path:LINE:COL".
#[allow(dead_code)]
fn refs(db: &FixtureDatabase, root: &Path, file: &str, line: usize, name: &str) -> Vec<String> {
    let d = db
        .get_definition_at_line(&root.join(file), line, name)
        .expect("definition");
    let mut v: Vec<String> = db
        .find_references_for_definition(&d)
        .iter()
        .map(|u| {
            format!(
                "{}:{}:{}",
                u.file_path.strip_prefix(root).unwrap().display(),
                u.line,
                u.start_char
            )
        })
        .collect();
    v.sort();
    v
}


/// Variant of hunt 2 through two star imports: `from .a import *; from .b import *` - b's `foo`
/// rebinds a's, so a.py:foo is not registered; the parameter of b.py:foo goes to conftest.py:4.
#[test]
fn two_star_imports_second_overrides_first() {
    let (_td, root, db) = workspace(&[
        ("conftest.py", BASE),
        ("sub/a.py", BASE),
        ("sub/b.py", OVERRIDE),
        ("sub/conftest.py", "from .a import *\nfrom .b import *\n"),
        ("sub/test_a.py", "def test_x(foo):\n    pass\n"),
    ]);
    assert_eq!(goto(&db, &root, "sub/test_a.py", 0, 11), "sub/b.py:4");
    assert_eq!(goto(&db, &root, "sub/b.py", 3, 8), "conftest.py:4");
}

/// An override defined under a module-level `if` is not seen at all.
#[test]
fn override_under_module_level_if() {
    let (_td, root, db) = workspace(&[
        ("conftest.py", BASE),
        (
            "test_a.py",
            "import pytest, sys\n\nif sys.version_info >= (3, 8):\n    @pytest.fixture\n    def foo(foo):\n        return foo\n\ndef test_x(foo):\n    pass\n",
        ),
    ]);
    assert_eq!(goto(&db, &root, "test_a.py", 7, 11), "test_a.py:5");
    assert_eq!(goto(&db, &root, "test_a.py", 4, 12), "conftest.py:4");
}

/// `try: from .fast import foo / except ImportError: from .slow import foo`: "the later import
/// wins" is applied across the branches, so the fallback is chosen although .fast resolves.
#[test]
fn try_except_import_fallback() {
    let (_td, root, db) = workspace(&[
        ("fast.py", BASE),
        ("slow.py", BASE),
        (
            "conftest.py",
            "try:\n    from fast import foo\nexcept ImportError:\n    from slow import foo\n",
        ),
        ("test_a.py", "def test_x(foo):\n    pass\n"),
    ]);
    assert_eq!(goto(&db, &root, "test_a.py", 0, 11), "fast.py:4");
}
