//! C02 hunt 3: every .py file of a plugin package counts as a plugin module, conftest.py included.
use pytest_language_server::FixtureDatabase;
use std::fs;
use std::path::{Path, PathBuf};

#[allow(dead_code)]
const BASE: &str = "import pytest\n\n@pytest.fixture\ndef foo():\n    return 1\n";
#[allow(dead_code)]
const OVERRIDE: &str = "import pytest\n\n@pytest.fixture\ndef foo(foo):\n    return foo\n";

/// Write the files below a fresh temporary directory and scan it as a workspace.
fn workspace(files: &[(&str, &str)]) -> (tempfile::TempDir, PathBuf, FixtureDatabase) {
    let td = tempfile::tempdir().unwrap();
    let root = td.path().canonicalize().unwrap();
    for (p, c) in files {
        let fp = root.join(p);
        fs::create_dir_all(fp.parent().unwrap()).unwrap();
        fs::write(&fp, c).unwrap();
    }
    let db = FixtureDatabase::new();
    db.scan_workspace(&root);
    (td, root, db)
}

/// Go-to-definition at (0-based line, column) of `file`, as "relative/path.py:LINE" (1-based).
fn goto(db: &FixtureDatabase, root: &Path, file: &str, line: u32, col: u32) -> String {
    match db.find_fixture_definition(&root.join(file), line, col) {
        Some(d) => format!(
            "{}:{}",
            d.file_path.strip_prefix(root).unwrap_or(&d.file_path).display(),
            d.line
        ),
        None => "None".to_string(),
    }
}

/// References of the definition of `name` at 1-based `line` of `file`, as "path:LINE:COL".
#[allow(dead_code)]
fn refs(db: &FixtureDatabase, root: &Path, file: &str, line: usize, name: &str) -> Vec<String> {
    let d = db
        .get_definition_at_line(&root.join(file), line, name)
        .expect("definition");
    let mut v: Vec<String> = db
        .find_references_for_definition(&d)
        .iter()
        .map(|u| {
            format!(
                "{}:{}:{}",
                u.file_path.strip_prefix(root).unwrap().display(),
                u.line,
                u.start_char
            )
        })
        .collect();
    v.sort();
    v
}


/// site-packages/pytest_foo is a pytest11 plugin registered by its package name. Its fixture
/// `foo` is in pytest_foo/plugin.py (imported by __init__.py). The distribution also ships its
/// own test-suite, whose pytest_foo/tests/conftest.py overrides `foo` for those tests only.
/// The workspace conftest.py overrides `foo` and requests it: the next definition outward is
/// the plugin's, pytest_foo/plugin.py:4. The conftest of the shipped tests is not a plugin
/// and is invisible from the workspace.
#[test]
fn parent_of_a_workspace_override_is_the_plugin_not_the_plugins_private_conftest() {
    let sp = ".venv/lib/python3.11/site-packages";
    let (_td, root, db) = workspace(&[
        (
            &format!("{sp}/pytest_foo-1.0.dist-info/entry_points.txt"),
            "[pytest11]\nfoo = pytest_foo\n",
        ),
        (&format!("{sp}/pytest_foo/__init__.py"), "from .plugin import *\n"),
        (&format!("{sp}/pytest_foo/plugin.py"), BASE),
        (&format!("{sp}/pytest_foo/tests/conftest.py"), OVERRIDE),
        (
            &format!("{sp}/pytest_foo/tests/test_it.py"),
            "def test_x(foo):\n    pass\n",
        ),
        ("conftest.py", OVERRIDE),
        ("test_a.py", "def test_x(foo):\n    pass\n"),
    ]);
    assert_eq!(goto(&db, &root, "test_a.py", 0, 11), "conftest.py:4");
    assert_eq!(
        goto(&db, &root, "conftest.py", 3, 8),
        format!("{sp}/pytest_foo/plugin.py:4")
    );
}

/// Without any workspace override the test itself binds to the private conftest.
#[test]
fn test_binds_to_the_plugin_not_to_the_plugins_private_conftest() {
    let sp = ".venv/lib/python3.11/site-packages";
    let (_td, root, db) = workspace(&[
        (
            &format!("{sp}/pytest_foo-1.0.dist-info/entry_points.txt"),
            "[pytest11]\nfoo = pytest_foo\n",
        ),
        (&format!("{sp}/pytest_foo/__init__.py"), "from .plugin import *\n"),
        (&format!("{sp}/pytest_foo/plugin.py"), BASE),
        (&format!("{sp}/pytest_foo/tests/conftest.py"), OVERRIDE),
        ("test_a.py", "def test_x(foo):\n    pass\n"),
    ]);
    assert_eq!(
        goto(&db, &root, "test_a.py", 0, 11),
        format!("{sp}/pytest_foo/plugin.py:4")
    );
}
