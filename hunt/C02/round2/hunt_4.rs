//! C02 hunt 4: `pytest_plugins` in a test module is a global plugin, below every conftest.
use pytest_language_server::FixtureDatabase;
use std::fs;
use std::path::{Path, PathBuf};

#[allow(dead_code)]
const BASE: &str = "import pytest\n\n@pytest.fixture\ndef foo():\n    return 1\n";
#[allow(dead_code)]
const OVERRIDE: &str = "import pytest\n\n@pytest.fixture\ndef foo(foo):\n    return foo\n";

/// Write the files below a fresh temporary directory and scan it as a workspace.
fn workspace(files: &[(&str, &str)]) -> (tempfile::TempDir, PathBuf, FixtureDatabase) {
    let td = tempfile::tempdir().unwrap();
    let root = td.path().canonicalize().unwrap();
    for (p, c) in files {
        let fp = root.join(p);
        fs::create_dir_all(fp.parent().unwrap()).unwrap();
        fs::write(&fp, c).unwrap();
    }
    let db = FixtureDatabase::new();
    db.scan_workspace(&root);
    (td, root, db)
}

/// Go-to-definition at (0-based line, column) of `file`, as "relative/path.py:LINE" (1-based).
fn goto(db: &FixtureDatabase, root: &Path, file: &str, line: u32, col: u32) -> String {
    match db.find_fixture_definition(&root.join(file), line, col) {
        Some(d) => format!(
            "{}:{}",
            d.file_path.strip_prefix(root).unwrap_or(&d.file_path).display(),
            d.line
        ),
        None => "None".to_string(),
    }
}

/// References of the definition of `name` at 1-based `line` of `file`, as "path:LINE:COL".
#[allow(dead_code)]
fn refs(db: &FixtureDatabase, root: &Path, file: &str, line: usize, name: &str) -> Vec<String> {
    let d = db
        .get_definition_at_line(&root.join(file), line, name)
        .expect("definition");
    let mut v: Vec<String> = db
        .find_references_for_definition(&d)
        .iter()
        .map(|u| {
            format!(
                "{}:{}:{}",
                u.file_path.strip_prefix(root).unwrap().display(),
                u.line,
                u.start_char
            )
        })
        .collect();
    v.sort();
    v
}


/// test_a.py says `pytest_plugins = ["helpers"]`: pytest registers helpers.py as an ordinary
/// (global, location-less) plugin. conftest.py overrides the plugin fixture `foo` and requests
/// it. Shadowing order: conftest.py:foo over helpers.py:foo.
///  - test_a.py::test_x(foo) binds to the innermost override visible to it: conftest.py:4;
///  - the parameter of conftest.py:foo is the plugin fixture helpers.py:4.
#[test]
fn plugin_declared_by_a_test_module_is_below_the_conftest() {
    let (_td, root, db) = workspace(&[
        ("helpers.py", BASE),
        ("conftest.py", OVERRIDE),
        (
            "test_a.py",
            "pytest_plugins = ['helpers']\n\ndef test_x(foo):\n    pass\n",
        ),
        ("test_b.py", "def test_y(foo):\n    pass\n"),
    ]);
    let test_a = goto(&db, &root, "test_a.py", 2, 11);
    let test_b = goto(&db, &root, "test_b.py", 0, 11);
    let param = goto(&db, &root, "conftest.py", 3, 8);
    println!("test_a.py::test_x(foo) -> {test_a}");
    println!("test_b.py::test_y(foo) -> {test_b}");
    println!("conftest.py foo(foo) parameter -> {param}");
    assert_eq!(test_b, "conftest.py:4");
    assert_eq!(test_a, "conftest.py:4", "test_a binds to the conftest override");
    assert_eq!(param, "helpers.py:4", "the override's parent is the plugin fixture");
}
