//! C02 hunt 1: a name defined twice in one file; the live (last) definition requests itself.
use pytest_language_server::FixtureDatabase;
use std::fs;
use std::path::{Path, PathBuf};

#[allow(dead_code)]
const BASE: &str = "import pytest\n\n@pytest.fixture\ndef foo():\n    return 1\n";
#[allow(dead_code)]
const OVERRIDE: &str = "import pytest\n\n@pytest.fixture\ndef foo(foo):\n    return foo\n";

/// Write the files below a fresh temporary directory and scan it as a workspace.
fn workspace(files: &[(&str, &str)]) -> (tempfile::TempDir, PathBuf, FixtureDatabase) {
    let td = tempfile::tempdir().unwrap();
    let root = td.path().canonicalize().unwrap();
    for (p, c) in files {
        let fp = root.join(p);
        fs::create_dir_all(fp.parent().unwrap()).unwrap();
        fs::write(&fp, c).unwrap();
    }
    let db = FixtureDatabase::new();
    db.scan_workspace(&root);
    (td, root, db)
}

/// Go-to-definition at (0-based line, column) of `file`, as "relative/path.py:LINE" (1-based).
fn goto(db: &FixtureDatabase, root: &Path, file: &str, line: u32, col: u32) -> String {
    match db.find_fixture_definition(&root.join(file), line, col) {
        Some(d) => format!(
            "{}:{}",
            d.file_path.strip_prefix(root).unwrap_or(&d.file_path).display(),
            d.line
        ),
        None => "None".to_string(),
    }
}

/// References of the definition of `name` at 1-based `line` of `file`, as "path:LINE:COL".
#[allow(dead_code)]
fn refs(db: &FixtureDatabase, root: &Path, file: &str, line: usize, name: &str) -> Vec<String> {
    let d = db
        .get_definition_at_line(&root.join(file), line, name)
        .expect("definition");
    let mut v: Vec<String> = db
        .find_references_for_definition(&d)
        .iter()
        .map(|u| {
            format!(
                "{}:{}:{}",
                u.file_path.strip_prefix(root).unwrap().display(),
                u.line,
                u.start_char
            )
        })
        .collect();
    v.sort();
    v
}


/// test_a.py binds `foo` twice. Python keeps only the last binding, so pytest registers only
/// the second function (this project agrees: "the last definition wins"). Its `foo`
/// parameter is therefore the next definition OUTWARD, conftest.py:4 - the first function
/// in test_a.py no longer exists as a fixture.
#[test]
fn self_named_parameter_of_the_last_duplicate_goes_outward() {
    let (_td, root, db) = workspace(&[
        ("conftest.py", BASE),
        (
            "test_a.py",
            "import pytest\n\n@pytest.fixture\ndef foo():\n    return 0\n\n@pytest.fixture\ndef foo(foo):\n    return foo\n\ndef test_x(foo):\n    pass\n",
        ),
    ]);
    // the test binds to the last definition (correct)
    assert_eq!(goto(&db, &root, "test_a.py", 10, 11), "test_a.py:8");
    // every column of the parameter on line 8 (`def foo(foo):`, columns 8..11)
    for col in 8..11 {
        assert_eq!(
            goto(&db, &root, "test_a.py", 7, col),
            "conftest.py:4",
            "parameter `foo` of the live definition at column {col}"
        );
    }
    // and the conftest fixture is referenced by that parameter
    assert_eq!(refs(&db, &root, "conftest.py", 4, "foo"), vec!["test_a.py:8:8"]);
}
