//! C02 hunt 2: a file imports a fixture and (re)defines the same name; the import is shadowed.
use pytest_language_server::FixtureDatabase;
use std::fs;
use std::path::{Path, PathBuf};

#[allow(dead_code)]
const BASE: &str = "import pytest\n\n@pytest.fixture\ndef foo():\n    return 1\n";
#[allow(dead_code)]
const OVERRIDE: &str = "import pytest\n\n@pytest.fixture\ndef foo(foo):\n    return foo\n";

/// Write the files below a fresh temporary directory and scan it as a workspace.
fn workspace(files: &[(&str, &str)]) -> (tempfile::TempDir, PathBuf, FixtureDatabase) {
    let td = tempfile::tempdir().unwrap();
    let root = td.path().canonicalize().unwrap();
    for (p, c) in files {
        let fp = root.join(p);
        fs::create_dir_all(fp.parent().unwrap()).unwrap();
        fs::write(&fp, c).unwrap();
    }
    let db = FixtureDatabase::new();
    db.scan_workspace(&root);
    (td, root, db)
}

/// Go-to-definition at (0-based line, column) of `file`, as "relative/path.py:LINE" (1-based).
fn goto(db: &FixtureDatabase, root: &Path, file: &str, line: u32, col: u32) -> String {
    match db.find_fixture_definition(&root.join(file), line, col) {
        Some(d) => format!(
            "{}:{}",
            d.file_path.strip_prefix(root).unwrap_or(&d.file_path).display(),
            d.line
        ),
        None => "None".to_string(),
    }
}

/// References of the definition of `name` at 1-based `line` of `file`, as "path:LINE:COL".
#[allow(dead_code)]
fn refs(db: &FixtureDatabase, root: &Path, file: &str, line: usize, name: &str) -> Vec<String> {
    let d = db
        .get_definition_at_line(&root.join(file), line, name)
        .expect("definition");
    let mut v: Vec<String> = db
        .find_references_for_definition(&d)
        .iter()
        .map(|u| {
            format!(
                "{}:{}:{}",
                u.file_path.strip_prefix(root).unwrap().display(),
                u.line,
                u.start_char
            )
        })
        .collect();
    v.sort();
    v
}


/// sub/conftest.py star-imports `foo` from sub/fixtures.py and then defines its own `foo(foo)`.
/// The `def` rebinds the name, so the conftest namespace holds only the local function:
/// sub/fixtures.py:foo is not registered anywhere. pytest resolves the parameter to the
/// next conftest outward (conftest.py:4).
#[test]
fn conftest_star_import_then_override() {
    let (_td, root, db) = workspace(&[
        ("conftest.py", BASE),
        ("sub/fixtures.py", BASE),
        (
            "sub/conftest.py",
            "import pytest\nfrom .fixtures import *\n\n@pytest.fixture\ndef foo(foo):\n    return foo\n",
        ),
        ("sub/test_a.py", "def test_x(foo):\n    pass\n"),
    ]);
    assert_eq!(goto(&db, &root, "sub/test_a.py", 0, 11), "sub/conftest.py:5");
    assert_eq!(goto(&db, &root, "sub/conftest.py", 4, 8), "conftest.py:4");
    assert_eq!(
        refs(&db, &root, "conftest.py", 4, "foo"),
        vec!["sub/conftest.py:5:8"]
    );
}

/// Same in a test module: `from helpers import foo` followed by `def foo(foo)`.
#[test]
fn test_module_import_then_override() {
    let (_td, root, db) = workspace(&[
        ("conftest.py", BASE),
        ("helpers.py", BASE),
        (
            "test_a.py",
            "import pytest\nfrom helpers import foo\n\n@pytest.fixture\ndef foo(foo):\n    return foo\n\ndef test_x(foo):\n    pass\n",
        ),
    ]);
    assert_eq!(goto(&db, &root, "test_a.py", 7, 11), "test_a.py:5");
    assert_eq!(goto(&db, &root, "test_a.py", 4, 8), "conftest.py:4");
}

/// The other order: the conftest defines `foo` and imports `foo` afterwards. Now the import
/// is the live binding, and the tests below bind to helpers.py:4, not to the dead `def`.
#[test]
fn conftest_def_then_import() {
    let (_td, root, db) = workspace(&[
        ("helpers.py", BASE),
        (
            "conftest.py",
            "import pytest\n\n@pytest.fixture\ndef foo():\n    return 0\n\nfrom helpers import foo\n",
        ),
        ("test_a.py", "def test_x(foo):\n    pass\n"),
    ]);
    assert_eq!(goto(&db, &root, "test_a.py", 0, 11), "helpers.py:4");
}
