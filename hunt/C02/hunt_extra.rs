//! C02 hunt, additional reproduced observations (not counted among the five findings).
use pytest_language_server::FixtureDatabase;
use std::fs;
use std::path::Path;

fn w(p: &Path, s: &str) {
    fs::create_dir_all(p.parent().unwrap()).unwrap();
    fs::write(p, s).unwrap();
}
const BASE: &str = "import pytest\n\n@pytest.fixture\ndef foo():\n    return 0\n";
const OVERRIDE: &str = "import pytest\n\n@pytest.fixture\ndef foo(foo):\n    return foo + 1\n";

/// tests/conftest.py is a symlink to shared/base_conftest.py: the definitions are stored under the
/// canonical target path, which is not called conftest.py, so the override is invisible to the walk.
#[cfg(unix)]
#[test]
fn symlinked_conftest_override_is_visible() {
    let tmp = tempfile::tempdir().unwrap();
    let ws = tmp.path().canonicalize().unwrap().join("ws");
    w(&ws.join("conftest.py"), BASE);
    w(&ws.join("shared/base_conftest.py"), OVERRIDE);
    w(&ws.join("tests/test_a.py"), "def test_a(foo):\n    pass\n");
    std::os::unix::fs::symlink(ws.join("shared/base_conftest.py"), ws.join("tests/conftest.py")).unwrap();
    let db = FixtureDatabase::new();
    db.scan_workspace(&ws);
    let d = db.find_fixture_definition(&ws.join("tests/test_a.py"), 0, 11).unwrap();
    assert_eq!(d.file_path, ws.join("shared/base_conftest.py"), "test must bind to the override in tests/conftest.py (symlink)");
}

/// `@pytest.fixture(name="foo") def foo_impl(foo)`: from the function name nothing is found at all.
#[test]
fn renamed_override_function_name_concerns_the_override() {
    let tmp = tempfile::tempdir().unwrap();
    let ws = tmp.path().canonicalize().unwrap().join("ws");
    w(&ws.join("conftest.py"), BASE);
    let f = ws.join("test_a.py");
    w(&f, "import pytest\n\n@pytest.fixture(name=\"foo\")\ndef foo_impl(foo):\n    return foo + 1\n\ndef test_a(foo):\n    pass\n");
    let db = FixtureDatabase::new();
    db.scan_workspace(&ws);
    // parameter (col 13) -> parent: works
    assert_eq!(db.find_fixture_definition(&f, 3, 13).unwrap().file_path, ws.join("conftest.py"));
    // test -> override: works
    assert_eq!(db.find_fixture_definition(&f, 6, 11).unwrap().line, 4);
    // function name (cols 4..=11): references / call hierarchy entry points find nothing
    assert_eq!(db.find_fixture_at_position(&f, 3, 6).as_deref(), Some("foo"), "find_fixture_at_position on the function name");
    assert!(db.find_fixture_or_definition_at_position(&f, 3, 6).is_some());
}

/// conftest.py star-imports `foo` and then defines `foo(foo)` itself: the def rebinds the module
/// attribute, the imported fixture no longer exists in that conftest, pytest resolves the parameter
/// to the parent conftest. The resolver returns the shadowed import.
#[test]
fn def_shadows_star_import_in_same_conftest() {
    let tmp = tempfile::tempdir().unwrap();
    let ws = tmp.path().canonicalize().unwrap().join("ws");
    w(&ws.join("conftest.py"), BASE);
    w(&ws.join("tests/__init__.py"), "");
    w(&ws.join("tests/base.py"), "import pytest\n\n@pytest.fixture\ndef foo():\n    return 5\n");
    w(&ws.join("tests/conftest.py"), "import pytest\nfrom .base import *\n\n@pytest.fixture\ndef foo(foo):\n    return foo + 1\n");
    let db = FixtureDatabase::new();
    db.scan_workspace(&ws);
    let d = db.find_fixture_definition(&ws.join("tests/conftest.py"), 4, 9).unwrap();
    assert_eq!(d.file_path, ws.join("conftest.py"));
}
