//! hunt_2: a document that is opened and closed (unmodified) while the workspace scan is
//! still running changes the answers for other documents, for the rest of the session.
//!
//! The scan's import phase (`scan_imported_fixture_modules`) uses the text cache as its record
//! of what has been analysed; `did_close` (`cleanup_file_cache`) removes the entry.

use pytest_language_server::FixtureDatabase;
use std::fs;
use std::path::{Path, PathBuf};
use std::sync::Arc;
use tempfile::TempDir;

fn w(root: &Path, rel: &str, content: &str) -> PathBuf {
    let p = root.join(rel);
    fs::create_dir_all(p.parent().unwrap()).unwrap();
    fs::write(&p, content).unwrap();
    p
}

/// (name, defining file, is_plugin, is_third_party) of everything available in `file`
fn view(db: &FixtureDatabase, file: &Path) -> Vec<(String, String, bool, bool)> {
    db.get_available_fixtures(file)
        .into_iter()
        .map(|d| {
            (
                d.name.clone(),
                d.file_path.file_name().unwrap().to_string_lossy().to_string(),
                d.is_plugin,
                d.is_third_party,
            )
        })
        .collect()
}

// ---------------------------------------------------------------------------------------
// (a) sequential: a module star-imported by a workspace pytest11 plugin is opened and closed
//     before the scan; its fixtures never get is_plugin (completion detail "[plugin]", sort
//     group 2_ instead of 1_), until the file happens to be opened again.
// ---------------------------------------------------------------------------------------

fn plugin_ws() -> (TempDir, PathBuf) {
    let tmp = TempDir::new().unwrap();
    let root = tmp.path().canonicalize().unwrap();
    let sp = ".venv/lib/python3.12/site-packages";
    w(
        &root,
        &format!("{sp}/mypkg-1.0.dist-info/entry_points.txt"),
        "[pytest11]\nmypkg = mypkg.plugin\n",
    );
    w(
        &root,
        &format!("{sp}/mypkg-1.0.dist-info/direct_url.json"),
        &format!(
            "{{\"url\": \"file://{}\", \"dir_info\": {{\"editable\": true}}}}",
            root.display()
        ),
    );
    w(
        &root,
        &format!("{sp}/__editable__.mypkg-1.0.pth"),
        &format!("{}\n", root.join("src").display()),
    );
    w(&root, "src/mypkg/__init__.py", "");
    w(&root, "src/mypkg/plugin.py", "from .fixtures import *\n");
    w(
        &root,
        "src/mypkg/fixtures.py",
        "import pytest\n\n@pytest.fixture\ndef plug_fix():\n    return 1\n",
    );
    w(&root, "tests/test_a.py", "def test_x(plug_fix):\n    pass\n");
    (tmp, root)
}

#[test]
fn open_close_before_import_phase_loses_plugin_flag() {
    let (_t1, root1) = plugin_ws();
    let cold = FixtureDatabase::new();
    cold.scan_workspace(&root1);
    let expected = view(&cold, &root1.join("tests/test_a.py"));

    let (_t2, root2) = plugin_ws();
    let db = FixtureDatabase::new();
    let f = root2.join("src/mypkg/fixtures.py");
    let text = fs::read_to_string(&f).unwrap();
    // did_open + did_close of the unmodified file, processed before the scan gets to phase 4
    db.document_opened(&f);
    db.analyze_file(f.clone(), &text);
    db.document_closed(&f);
    db.cleanup_file_cache(&f);
    db.scan_workspace(&root2);
    let actual = view(&db, &root2.join("tests/test_a.py"));

    // ... and opening + closing it once more (still unmodified) changes the answer again
    db.document_opened(&f);
    db.analyze_file(f.clone(), &text);
    db.document_closed(&f);
    db.cleanup_file_cache(&f);
    let later = view(&db, &root2.join("tests/test_a.py"));
    println!("never opened            : {:?}", expected);
    println!("opened+closed early     : {:?}", actual);
    println!("opened+closed once more : {:?}", later);

    assert_eq!(expected, actual, "open+close of an unmodified file changed another file's view");
}

// ---------------------------------------------------------------------------------------
// (b) concurrent: conftest.py (pytest_plugins = ["thirdlib.fixtures"], a module that is only
//     resolvable once site-packages is known) is open when the scan starts and is closed
//     while the venv is being scanned.  Phase 4 builds its work list from the text cache,
//     the conftest is no longer in it, thirdlib.fixtures is never analysed.
// ---------------------------------------------------------------------------------------

fn thirdlib_ws() -> (TempDir, PathBuf) {
    let tmp = TempDir::new().unwrap();
    let root = tmp.path().canonicalize().unwrap();
    let sp = ".venv/lib/python3.12/site-packages";
    // something for phase 3 to chew on (pytest's own fixtures)
    for i in 0..400 {
        w(
            &root,
            &format!("{sp}/_pytest/mod_{i}.py"),
            &format!("import pytest\n\n@pytest.fixture\ndef builtin_{i}():\n    return {i}\n"),
        );
    }
    w(&root, &format!("{sp}/thirdlib/__init__.py"), "");
    w(
        &root,
        &format!("{sp}/thirdlib/fixtures.py"),
        "import pytest\n\n@pytest.fixture\ndef third_fix():\n    return 1\n",
    );
    w(&root, "conftest.py", "pytest_plugins = [\"thirdlib.fixtures\"]\n");
    w(&root, "test_a.py", "def test_x(third_fix):\n    pass\n");
    (tmp, root)
}

fn has_third_fix(db: &FixtureDatabase, root: &Path) -> bool {
    db.get_available_fixtures(&root.join("test_a.py"))
        .iter()
        .any(|d| d.name == "third_fix")
}

#[test]
fn close_during_venv_phase_hides_pytest_plugins_module() {
    let (_t1, root1) = thirdlib_ws();
    let cold = FixtureDatabase::new();
    cold.scan_workspace(&root1);
    assert!(has_third_fix(&cold, &root1), "sanity: a plain scan finds third_fix");

    // control: opened before the scan and left open - fine
    {
        let (_t, root) = thirdlib_ws();
        let db = FixtureDatabase::new();
        let conftest = root.join("conftest.py");
        db.document_opened(&conftest);
        db.analyze_file(conftest.clone(), &fs::read_to_string(&conftest).unwrap());
        db.scan_workspace(&root);
        assert!(has_third_fix(&db, &root), "control: open and never closed finds third_fix");
    }

    let (_t2, root2) = thirdlib_ws();
    let db = Arc::new(FixtureDatabase::new());
    let conftest = root2.join("conftest.py");
    let text = fs::read_to_string(&conftest).unwrap();

    // The editor restores its tabs: did_open(conftest.py) arrives before the walk gets there
    db.document_opened(&conftest);
    db.analyze_file(conftest.clone(), &text);

    let scan = {
        let db = Arc::clone(&db);
        let root = root2.clone();
        std::thread::spawn(move || db.scan_workspace(&root))
    };
    // The user closes the tab while the virtual environment is being scanned (phase 3)
    while db.site_packages_paths.lock().unwrap().is_empty() && !scan.is_finished() {
        std::thread::yield_now();
    }
    db.document_closed(&conftest);
    db.cleanup_file_cache(&conftest);
    scan.join().unwrap();

    let found = has_third_fix(&db, &root2);
    println!("third_fix available in test_a.py after open ... close during scan: {found}");
    assert!(
        found,
        "conftest.py was opened and closed unmodified, and test_a.py lost third_fix"
    );
}
