#!/usr/bin/env python3
"""hunt_1: callHierarchy/outgoingCalls changes after an unmodified conftest.py is opened and closed.

Drives the real binary over stdio.  Usage:  python3 hunt_1.py [path/to/pytest-language-server]
Exit status 1 (and a diff printed) when the answers before / after the open+close differ.
"""
import json
import os
import subprocess
import sys
import tempfile
import threading
import queue

BIN = sys.argv[1] if len(sys.argv) > 1 else os.path.join(
    os.path.dirname(os.path.abspath(__file__)), "target", "debug", "pytest-language-server")

CONFTEST = """import pytest


@pytest.fixture
def base():
    return 1


@pytest.fixture
def derived(base):
    return base + 1
"""
TEST = "def test_x(derived):\n    pass\n"


class Lsp:
    def __init__(self, binary):
        self.p = subprocess.Popen([binary], stdin=subprocess.PIPE, stdout=subprocess.PIPE,
                                  stderr=subprocess.DEVNULL)
        self.q = queue.Queue()
        self.next_id = 1
        threading.Thread(target=self._reader, daemon=True).start()

    def _reader(self):
        out = self.p.stdout
        while True:
            headers = {}
            while True:
                line = out.readline()
                if not line:
                    return
                line = line.strip()
                if not line:
                    break
                k, v = line.split(b":", 1)
                headers[k.lower()] = v.strip()
            body = out.read(int(headers[b"content-length"]))
            self.q.put(json.loads(body))

    def send(self, msg):
        data = json.dumps(msg).encode()
        self.p.stdin.write(b"Content-Length: %d\r\n\r\n" % len(data) + data)
        self.p.stdin.flush()

    def notify(self, method, params):
        self.send({"jsonrpc": "2.0", "method": method, "params": params})

    def request(self, method, params):
        rid = self.next_id
        self.next_id += 1
        self.send({"jsonrpc": "2.0", "id": rid, "method": method, "params": params})
        while True:
            msg = self.q.get(timeout=20)
            if msg.get("id") == rid and "method" not in msg:
                return msg.get("result")
            if "id" in msg and "method" in msg:  # server -> client request: answer it
                self.send({"jsonrpc": "2.0", "id": msg["id"], "result": None})

    def wait_log(self, needle):
        while True:
            msg = self.q.get(timeout=20)
            if "id" in msg and "method" in msg:
                self.send({"jsonrpc": "2.0", "id": msg["id"], "result": None})
            if msg.get("method") == "window/logMessage" and needle in msg["params"]["message"]:
                return


def main():
    root = os.path.realpath(tempfile.mkdtemp(prefix="hunt1_"))
    conftest = os.path.join(root, "conftest.py")
    test = os.path.join(root, "test_a.py")
    open(conftest, "w").write(CONFTEST)
    open(test, "w").write(TEST)
    uri = lambda p: "file://" + p

    s = Lsp(BIN)
    s.request("initialize", {"processId": None, "rootUri": uri(root), "capabilities": {},
                             "workspaceFolders": [{"uri": uri(root), "name": "w"}]})
    s.notify("initialized", {})
    s.wait_log("Workspace scan complete")

    s.notify("textDocument/didOpen", {"textDocument": {
        "uri": uri(test), "languageId": "python", "version": 1, "text": TEST}})
    items = s.request("textDocument/prepareCallHierarchy", {
        "textDocument": {"uri": uri(test)}, "position": {"line": 0, "character": 12}})
    item = items[0]
    print("call hierarchy item:", item["name"], "in", os.path.basename(item["uri"]))

    before = s.request("callHierarchy/outgoingCalls", {"item": item})

    # open the conftest exactly as it is on disk, then close it again
    s.notify("textDocument/didOpen", {"textDocument": {
        "uri": uri(conftest), "languageId": "python", "version": 1, "text": CONFTEST}})
    s.notify("textDocument/didClose", {"textDocument": {"uri": uri(conftest)}})

    after = s.request("callHierarchy/outgoingCalls", {"item": item})

    fr = lambda r: [(c["to"]["name"], c["fromRanges"]) for c in r]
    print("outgoingCalls before open+close of conftest.py:", json.dumps(fr(before)))
    print("outgoingCalls after  open+close of conftest.py:", json.dumps(fr(after)))
    try:
        s.request("shutdown", None)
    except Exception:
        pass
    s.p.kill()
    if before != after:
        print("FAIL: the answer changed although the document was not modified")
        sys.exit(1)
    print("ok")


if __name__ == "__main__":
    main()
