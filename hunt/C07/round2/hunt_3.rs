//! hunt_3: the "last version that parsed" of a conftest is kept half in the index (its own
//! definitions) and half in a cache (`ast_cache`, from which its imports are re-read).
//! `did_close` drops the cache half only: closing a document whose buffer is identical to the
//! file on disk changes the answers for other documents.
//!
//! History (a pull that leaves conflict markers, or simply "save a half-typed file"):
//!   scan; did_open(conftest V1); the file becomes V2 on disk and in the buffer (V2 does not
//!   parse; the editor reloads a clean buffer from disk, or the user saves); did_close.

use pytest_language_server::FixtureDatabase;
use std::fs;
use std::path::{Path, PathBuf};
use tempfile::TempDir;

fn w(root: &Path, rel: &str, content: &str) -> PathBuf {
    let p = root.join(rel);
    fs::create_dir_all(p.parent().unwrap()).unwrap();
    fs::write(&p, content).unwrap();
    p
}

fn names(db: &FixtureDatabase, file: &Path) -> Vec<String> {
    db.get_available_fixtures(file)
        .into_iter()
        .map(|d| d.name)
        .collect()
}

const V1: &str = "import pytest\nfrom helpers import *\n\n\n@pytest.fixture\ndef own_fix():\n    return 1\n";
const V2: &str = "import pytest\n<<<<<<< HEAD\nfrom helpers import *\n=======\nfrom helpers2 import *\n>>>>>>> other\n\n\n@pytest.fixture\ndef own_fix():\n    return 1\n";

#[test]
fn closing_a_document_identical_to_disk_changes_answers() {
    let tmp = TempDir::new().unwrap();
    let root = tmp.path().canonicalize().unwrap();
    let conftest = w(&root, "conftest.py", V1);
    w(
        &root,
        "helpers.py",
        "import pytest\n\n\n@pytest.fixture\ndef helper_fix():\n    return 2\n",
    );
    let test = w(&root, "test_a.py", "def test_x(own_fix, helper_fix):\n    pass\n");

    let db = FixtureDatabase::new();
    db.scan_workspace(&root);
    assert_eq!(names(&db, &test), ["helper_fix", "own_fix"]);

    // did_open, unmodified
    db.document_opened(&conftest);
    db.analyze_file(conftest.clone(), V1);
    // the file is now V2 on disk and in the editor (did_change with the reloaded text)
    fs::write(&conftest, V2).unwrap();
    db.analyze_file(conftest.clone(), V2);
    let while_open = names(&db, &test);
    let def_while_open = db.find_fixture_definition(&test, 0, 20).map(|d| d.name);

    // did_close: buffer == disk, nothing is unsaved
    db.document_closed(&conftest);
    db.cleanup_file_cache(&conftest);
    let after_close = names(&db, &test);
    let def_after_close = db.find_fixture_definition(&test, 0, 20).map(|d| d.name);

    // what a server started now would say
    let cold = FixtureDatabase::new();
    cold.scan_workspace(&root);
    let cold_view = names(&cold, &test);

    println!("test_a.py sees, conftest open   : {:?}  goto(helper_fix) = {:?}", while_open, def_while_open);
    println!("test_a.py sees, conftest closed : {:?}  goto(helper_fix) = {:?}", after_close, def_after_close);
    println!("test_a.py sees, fresh server    : {:?}", cold_view);

    assert_eq!(
        while_open, after_close,
        "closing a document whose buffer equals the file on disk changed another document's view"
    );
}
