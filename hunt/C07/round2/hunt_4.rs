//! hunt_4: pressure-driven eviction changes the answers for documents nobody touched, once a
//! helper module has disappeared from disk (branch switch, `git stash`, file deleted in the
//! explorer - the server watches no files, so nothing is re-analysed).
//!
//! While the helper's text is cached, `find_module_file` resolves `from helpers import *`
//! through the cache ("also check if the file is in the cache") and the helper's fixtures stay
//! available.  When eviction drops the text, the import stops resolving, while the helper's
//! definitions stay in the index: the answer of each directory now depends on which 25% of
//! the entries the eviction happened to pick.

use pytest_language_server::FixtureDatabase;
use std::fs;
use std::path::{Path, PathBuf};
use tempfile::TempDir;

fn w(root: &Path, rel: &str, content: &str) -> PathBuf {
    let p = root.join(rel);
    fs::create_dir_all(p.parent().unwrap()).unwrap();
    fs::write(&p, content).unwrap();
    p
}

const DIRS: usize = 40;

fn answers(db: &FixtureDatabase, root: &Path) -> Vec<bool> {
    (0..DIRS)
        .map(|i| {
            db.get_available_fixtures(&root.join(format!("d{i}/test_a.py")))
                .iter()
                .any(|d| d.name == "h_fix")
        })
        .collect()
}

#[test]
fn eviction_changes_answers_after_a_module_left_the_disk() {
    std::env::remove_var("VIRTUAL_ENV");
    let tmp = TempDir::new().unwrap();
    let root = tmp.path().canonicalize().unwrap();
    for i in 0..DIRS {
        w(&root, &format!("d{i}/conftest.py"), "from helpers import *\n");
        w(
            &root,
            &format!("d{i}/helpers.py"),
            "import pytest\n\n\n@pytest.fixture\ndef h_fix():\n    return 1\n",
        );
        w(&root, &format!("d{i}/test_a.py"), "def test_x(h_fix):\n    pass\n");
    }
    // 120 files above + 1870 fillers = 1990 cached texts: just below MAX_FILE_CACHE_SIZE (2000)
    for i in 0..1870 {
        w(&root, &format!("fill/test_f{i}.py"), "def test_f():\n    pass\n");
    }
    let extras: Vec<PathBuf> = (0..15)
        .map(|i| w(&root, &format!("notes/mod_{i}.py"), "X = 1\n"))
        .collect();

    let db = FixtureDatabase::new();
    db.scan_workspace(&root);
    assert_eq!(db.file_cache.len(), 1990);
    assert!(answers(&db, &root).iter().all(|b| *b));

    // the helpers leave the disk; no notification reaches the server
    for i in 0..DIRS {
        fs::remove_file(root.join(format!("d{i}/helpers.py"))).unwrap();
    }

    // an unrelated, unmodified document is opened: every derived view is recomputed
    let unrelated = root.join("fill/test_f0.py");
    db.document_opened(&unrelated);
    db.analyze_file(unrelated.clone(), "def test_f():\n    pass\n");
    let before = answers(&db, &root);
    assert_eq!(db.file_cache.len(), 1990, "nothing evicted yet");

    // a few more documents are opened: the text cache crosses its limit and evicts 25%
    for extra in &extras {
        db.document_opened(extra);
        db.analyze_file(extra.clone(), "X = 1\n");
    }
    assert!(db.file_cache.len() < 1990, "eviction has happened");
    let after = answers(&db, &root);

    let lost = before
        .iter()
        .zip(&after)
        .filter(|(b, a)| **b && !**a)
        .count();
    println!(
        "directories whose test sees h_fix: before eviction {}/{DIRS}, after eviction {}/{DIRS} ({} lost)",
        before.iter().filter(|b| **b).count(),
        after.iter().filter(|b| **b).count(),
        lost
    );
    assert_eq!(before, after, "cache eviction changed the answers of untouched documents");
}
