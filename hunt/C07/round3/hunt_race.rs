use pytest_language_server::FixtureDatabase;
use std::collections::HashSet;
use std::fs;
use std::sync::atomic::{AtomicBool, Ordering};
use std::sync::Arc;

fn snap(db: &FixtureDatabase, root: &std::path::Path) -> String {
    let mut out = String::new();
    for f in ["test_a.py", "pkg/test_b.py", "conftest.py", "pkg/conftest.py"] {
        let p = root.join(f);
        let mut v: Vec<String> = db.get_available_fixtures(&p).into_iter().map(|d| format!("{}@{}:{}", d.name, d.file_path.display(), d.line)).collect();
        v.sort();
        let mut vis = HashSet::new();
        let mut i: Vec<String> = db.get_imported_fixtures(&p, &mut vis).into_iter().collect();
        i.sort();
        out.push_str(&format!("{} {:?} {:?}\n", f, v, i));
    }
    out.push_str(&format!("{:?}", db.detect_fixture_cycles().iter().map(|c| c.cycle_path.clone()).collect::<Vec<_>>()));
    out
}

#[test]
fn race() {
    let dir = tempfile::tempdir().unwrap();
    let root = dir.path().canonicalize().unwrap();
    fs::create_dir_all(root.join("pkg")).unwrap();
    fs::write(root.join("pkg/__init__.py"), "").unwrap();
    let c1 = "import pytest\nfrom h1 import *\n\n@pytest.fixture\ndef a(b):\n    return 1\n";
    let c2 = "import pytest\nfrom h2 import *\n";
    let c3 = "import pytest\nfrom h2 import *\ndef broken(:\n";
    let h1a = "import pytest\nfrom h2 import *\n\n@pytest.fixture\ndef b(a):\n    return 1\n";
    let h1b = "import pytest\n";
    let h2a = "import pytest\nfrom h1 import *\n\n@pytest.fixture\ndef c():\n    return 1\n";
    let h2b = "import pytest\n\n@pytest.fixture\ndef c(c):\n    return 1\n";
    fs::write(root.join("conftest.py"), c1).unwrap();
    fs::write(root.join("h1.py"), h1a).unwrap();
    fs::write(root.join("h2.py"), h2a).unwrap();
    fs::write(root.join("pkg/conftest.py"), "import pytest\nfrom ..h1 import b\n").unwrap();
    fs::write(root.join("test_a.py"), "def test_a(a, b, c):\n    pass\n").unwrap();
    fs::write(root.join("pkg/test_b.py"), "def test_b(a, b, c):\n    pass\n").unwrap();
    let db = Arc::new(FixtureDatabase::new());
    db.scan_workspace(&root);
    let mut bad = 0;
    for round in 0..300 {
        let stop = Arc::new(AtomicBool::new(false));
        let mut hs = Vec::new();
        for q in 0..3 {
            let db = db.clone();
            let root = root.clone();
            let stop = stop.clone();
            hs.push(std::thread::spawn(move || {
                let mut n = 0u64;
                while !stop.load(Ordering::Relaxed) {
                    let _ = snap(&db, &root);
                    n += q;
                }
                n
            }));
        }
        let e1 = {
            let db = db.clone();
            let root = root.clone();
            std::thread::spawn(move || {
                let p = root.join("conftest.py");
                for i in 0..6 {
                    let t = [c1, c2, c3][(round + i) % 3];
                    db.document_opened(&p);
                    db.analyze_file(p.clone(), t);
                }
                // settle on a saved version and close
                let t = [c1, c2][round % 2];
                db.analyze_file(p.clone(), t);
                fs::write(&p, t).unwrap();
                db.document_closed(&p);
                db.cleanup_file_cache(&p);
            })
        };
        let e2 = {
            let db = db.clone();
            let root = root.clone();
            std::thread::spawn(move || {
                for (f, vs) in [("h1.py", [h1a, h1b]), ("h2.py", [h2a, h2b])] {
                    let p = root.join(f);
                    for i in 0..4 {
                        let t = vs[(round / 2 + i) % 2];
                        db.document_opened(&p);
                        db.analyze_file(p.clone(), t);
                        fs::write(&p, t).unwrap();
                    }
                    db.document_closed(&p);
                    db.cleanup_file_cache(&p);
                }
            })
        };
        e1.join().unwrap();
        e2.join().unwrap();
        stop.store(true, Ordering::Relaxed);
        for h in hs { h.join().unwrap(); }
        let warm = snap(&db, &root);
        db.imported_fixtures_cache.clear();
        db.available_fixtures_cache.clear();
        db.cycle_cache.clear();
        let cold = snap(&db, &root);
        if warm != cold {
            bad += 1;
            println!("round {} WARM:\n{}\nCOLD:\n{}", round, warm, cold);
            if bad > 2 { break; }
        }
    }
    assert_eq!(bad, 0);
}
