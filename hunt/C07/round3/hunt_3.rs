//! C07 hunt 3: the derived caches (available fixtures, imported fixtures, cycles) are
//! stamped with `definitions_version` only, but what they are computed from includes the
//! DISK: the text of every closed / evicted file on an import chain is re-read with
//! `read_to_string` at query time (closing a document or cache eviction is what drops the
//! cached text). A query that runs while such a file is momentarily absent or half-written
//! (git checkout / stash, a formatter rewriting the file in place) caches the truncated
//! answer, and keeps serving it after the file is back, until some unrelated edit bumps the
//! version. A cold cache on the very same server state answers correctly; so does a server
//! that never closed the document (its text is still cached, the rewrite goes unnoticed).
use pytest_language_server::FixtureDatabase;
use std::fs;
use std::path::Path;

fn available(db: &FixtureDatabase, p: &Path) -> Vec<String> {
    let mut v: Vec<String> = db
        .get_available_fixtures(p)
        .into_iter()
        .map(|d| d.name)
        .collect();
    v.sort();
    v
}

fn clear_derived_caches(db: &FixtureDatabase) {
    db.available_fixtures_cache.clear();
    db.imported_fixtures_cache.clear();
    db.cycle_cache.clear();
}

#[test]
fn warm_answer_equals_cold_answer_after_a_closed_conftest_was_half_written() {
    let dir = tempfile::tempdir().unwrap();
    let root = dir.path().canonicalize().unwrap();
    let conftest = "import pytest\nfrom helpers import *\n";
    fs::write(root.join("conftest.py"), conftest).unwrap();
    let helpers = "import pytest\n\n\n@pytest.fixture\ndef helper_fx():\n    return 1\n";
    fs::write(root.join("helpers.py"), helpers).unwrap();
    fs::write(root.join("test_a.py"), "def test_a(helper_fx):\n    pass\n").unwrap();

    let db = FixtureDatabase::new();
    db.scan_workspace(&root);
    let test_file = root.join("test_a.py");
    let p = root.join("conftest.py");
    // the user looked at conftest.py and closed it again: its text is no longer cached
    // (the same state is reached by cache eviction in a workspace of > 2000 files)
    db.document_opened(&p);
    db.analyze_file(p.clone(), conftest);
    db.document_closed(&p);
    db.cleanup_file_cache(&p);

    // the control: the same workspace, same scan, conftest.py never opened/closed
    let control = FixtureDatabase::new();
    control.scan_workspace(&root);

    // a formatter rewrites conftest.py in place: truncate, then write
    fs::write(&p, "").unwrap();
    let during = available(&db, &test_file);
    let control_during = available(&control, &test_file);
    fs::write(&p, conftest).unwrap();
    println!(
        "server that never opened conftest.py, during rewrite / after: {:?} / {:?}",
        control_during,
        available(&control, &test_file)
    );

    let warm = available(&db, &test_file);
    clear_derived_caches(&db);
    let cold = available(&db, &test_file);
    println!("during rewrite: {:?}", during);
    println!("warm  (after) : {:?}", warm);
    println!("cold  (after) : {:?}", cold);
    assert_eq!(warm, cold, "the warm cache serves an answer a cold cache does not give");
}
