//! C07 hunt 2: didOpen indexes files the workspace scan deliberately leaves out (a
//! conftest.py ABOVE the workspace root, a file matched by the `exclude` setting); didClose
//! keeps what didOpen indexed, and the resolver walks the conftest hierarchy without
//! stopping at the workspace root. Peeking at such a file (open, no edit, close) changes
//! completion / go-to-definition of every test file below it for the rest of the session.
use glob::Pattern;
use pytest_language_server::FixtureDatabase;
use std::fs;
use std::path::Path;

fn available(db: &FixtureDatabase, p: &Path) -> Vec<String> {
    let mut v: Vec<String> = db
        .get_available_fixtures(p)
        .into_iter()
        .map(|d| d.name)
        .collect();
    v.sort();
    v
}

const CONFTEST: &str = "import pytest\n\n\n@pytest.fixture\ndef repo_fx():\n    return 1\n";

#[test]
fn peeking_at_a_conftest_above_the_workspace_root_is_invisible() {
    let dir = tempfile::tempdir().unwrap();
    let repo = dir.path().canonicalize().unwrap();
    // the editor's workspace folder is repo/services/api, the monorepo has repo/conftest.py
    let root = repo.join("services").join("api");
    fs::create_dir_all(root.join("tests")).unwrap();
    fs::write(repo.join("conftest.py"), CONFTEST).unwrap();
    fs::write(
        root.join("tests").join("test_a.py"),
        "def test_a(repo_fx):\n    pass\n",
    )
    .unwrap();

    let db = FixtureDatabase::new();
    db.scan_workspace(&root);
    let test_file = root.join("tests").join("test_a.py");
    let before = available(&db, &test_file);
    let goto_before = db
        .find_fixture_definition(&test_file, 0, 12)
        .map(|d| d.file_path);

    // didOpen + didClose of the unmodified repo/conftest.py
    let top = repo.join("conftest.py");
    db.document_opened(&top);
    db.analyze_file(top.clone(), CONFTEST);
    db.document_closed(&top);
    db.cleanup_file_cache(&top);

    let after = available(&db, &test_file);
    let goto_after = db
        .find_fixture_definition(&test_file, 0, 12)
        .map(|d| d.file_path);
    println!("before: avail={:?} goto={:?}", before, goto_before);
    println!("after : avail={:?} goto={:?}", after, goto_after);
    assert_eq!(before, after, "open+close of an unmodified document changed completion in test_a.py");
    assert_eq!(goto_before, goto_after);
}

#[test]
fn peeking_at_an_excluded_conftest_is_invisible() {
    let dir = tempfile::tempdir().unwrap();
    let root = dir.path().canonicalize().unwrap();
    fs::create_dir_all(root.join("legacy")).unwrap();
    fs::create_dir_all(root.join("tests")).unwrap();
    // [tool.pytest-language-server] exclude = ["legacy/**"]
    let exclude = vec![Pattern::new("legacy/**").unwrap()];
    let legacy_conftest =
        "import pytest\n\n\n@pytest.fixture(autouse=True)\ndef a(b):\n    return 1\n\n\n@pytest.fixture\ndef b(a):\n    return 1\n";
    fs::write(root.join("legacy").join("conftest.py"), legacy_conftest).unwrap();
    fs::write(root.join("tests").join("test_a.py"), "def test_a():\n    pass\n").unwrap();

    let db = FixtureDatabase::new();
    db.scan_workspace_with_excludes(&root, &exclude);
    let cycles_before = db.detect_fixture_cycles().len();

    let p = root.join("legacy").join("conftest.py");
    db.document_opened(&p);
    db.analyze_file(p.clone(), legacy_conftest);
    db.document_closed(&p);
    db.cleanup_file_cache(&p);

    let cycles_after = db.detect_fixture_cycles().len();
    let cold = FixtureDatabase::new();
    cold.scan_workspace_with_excludes(&root, &exclude);
    println!(
        "workspace-wide cycle detection: before={} after open+close={} cold server={}",
        cycles_before,
        cycles_after,
        cold.detect_fixture_cycles().len()
    );
    assert_eq!(cycles_before, cycles_after);
}
