//! C07 hunt 1: a source file that is legal Python but not UTF-8 on disk (PEP 263 coding
//! cookie, here Latin-1). The editor decodes it and sends UTF-8 text, the server can only
//! read UTF-8 from disk (`std::fs::read_to_string`). Opening and closing the UNMODIFIED
//! conftest.py changes the answers for test_a.py twice.
use pytest_language_server::FixtureDatabase;
use std::fs;
use std::path::Path;

fn available(db: &FixtureDatabase, p: &Path) -> Vec<String> {
    let mut v: Vec<String> = db
        .get_available_fixtures(p)
        .into_iter()
        .map(|d| d.name)
        .collect();
    v.sort();
    v
}

#[test]
fn opening_and_closing_an_unmodified_latin1_conftest_is_invisible() {
    let dir = tempfile::tempdir().unwrap();
    let root = dir.path().canonicalize().unwrap();

    // What the editor shows / sends (UTF-8 text of the document)
    let text = "# -*- coding: latin-1 -*-\n# Auteur: Andr\u{e9}\nimport pytest\nfrom helpers import *\n\n\n@pytest.fixture\ndef local_fx():\n    return 1\n";
    // What is on disk: the same characters, one byte each (ISO-8859-1)
    let bytes: Vec<u8> = text.chars().map(|c| c as u32 as u8).collect();
    fs::write(root.join("conftest.py"), &bytes).unwrap();
    fs::write(
        root.join("helpers.py"),
        "import pytest\n\n\n@pytest.fixture\ndef helper_fx():\n    return 1\n",
    )
    .unwrap();
    fs::write(
        root.join("test_a.py"),
        "def test_a(helper_fx, local_fx):\n    pass\n",
    )
    .unwrap();

    let db = FixtureDatabase::new();
    db.scan_workspace(&root);
    let test_file = root.join("test_a.py");
    let conftest = root.join("conftest.py");

    let before_open = available(&db, &test_file);
    let goto_before = db.find_fixture_definition(&test_file, 0, 12).map(|d| d.name);

    // textDocument/didOpen (what main.rs does)
    db.document_opened(&conftest);
    db.analyze_file(conftest.clone(), text);
    let while_open = available(&db, &test_file);

    // textDocument/didClose, nothing was edited (what main.rs does)
    db.document_closed(&conftest);
    db.cleanup_file_cache(&conftest);
    let after_close = available(&db, &test_file);
    let goto_after = db.find_fixture_definition(&test_file, 0, 12).map(|d| d.name);

    // the same workspace on a freshly started server
    let cold = FixtureDatabase::new();
    cold.scan_workspace(&root);
    let cold_answer = available(&cold, &test_file);

    println!("before open : {:?}  goto(helper_fx)={:?}", before_open, goto_before);
    println!("while open  : {:?}", while_open);
    println!("after close : {:?}  goto(helper_fx)={:?}", after_close, goto_after);
    println!("cold server : {:?}", cold_answer);

    assert_eq!(
        while_open, after_close,
        "closing the unmodified conftest.py changed the fixtures available in test_a.py"
    );
    assert_eq!(
        before_open, after_close,
        "opening + closing the unmodified conftest.py changed the fixtures available in test_a.py"
    );
    assert_eq!(after_close, cold_answer, "warm server and cold server disagree");
}
