use pytest_language_server::FixtureDatabase;
use std::collections::{BTreeMap, BTreeSet, HashSet};
use std::fs;
use std::path::{Path, PathBuf};

struct Rng(u64);
impl Rng {
    fn next(&mut self) -> u64 {
        let mut x = self.0;
        x ^= x << 13;
        x ^= x >> 7;
        x ^= x << 17;
        self.0 = x;
        x
    }
    fn below(&mut self, n: usize) -> usize {
        (self.next() % n as u64) as usize
    }
    fn chance(&mut self, pct: usize) -> bool {
        self.below(100) < pct
    }
}

const FILES: &[&str] = &[
    "conftest.py",
    "a.py",
    "b.py",
    "test_r.py",
    "pkg/conftest.py",
    "pkg/a.py",
    "pkg/c.py",
    "pkg/test_p.py",
    "pkg/sub/conftest.py",
    "pkg/sub/d.py",
    "pkg/sub/test_s.py",
];
const TARGETS: &[&str] = &[
    "a", "b", ".a", ".c", ".d", "..a", "..c", "..b", "pkg.a", "pkg.c", "pkg.sub.d", ".conftest",
    "conftest", "...a", ".sub.d",
];
const NAMES: &[&str] = &["f1", "f2", "f3", "f4"];

fn gen_content(rng: &mut Rng, file: &str, allow_broken: bool) -> String {
    let mut s = String::from("import pytest\n");
    let n_imports = rng.below(3);
    for _ in 0..n_imports {
        let t = TARGETS[rng.below(TARGETS.len())];
        if rng.chance(60) {
            s.push_str(&format!("from {} import *\n", t));
        } else {
            let a = NAMES[rng.below(NAMES.len())];
            let b = NAMES[rng.below(NAMES.len())];
            if a == b {
                s.push_str(&format!("from {} import {}\n", t, a));
            } else {
                s.push_str(&format!("from {} import {}, {}\n", t, a, b));
            }
        }
    }
    if rng.chance(15) {
        let t = ["a", "b", "pkg.a", "pkg.c", "pkg.sub.d"][rng.below(5)];
        s.push_str(&format!("pytest_plugins = [\"{}\"]\n", t));
    }
    let n_defs = rng.below(3);
    for _ in 0..n_defs {
        let name = NAMES[rng.below(NAMES.len())];
        let mut deps: Vec<&str> = Vec::new();
        for _ in 0..rng.below(3) {
            deps.push(NAMES[rng.below(NAMES.len())]);
        }
        deps.dedup();
        s.push_str(&format!(
            "\n@pytest.fixture\ndef {}({}):\n    return 1\n",
            name,
            deps.join(", ")
        ));
    }
    if file.contains("test_") {
        s.push_str("\ndef test_it(f1, f2, f3, f4):\n    pass\n");
    }
    if allow_broken && rng.chance(12) {
        s.push_str("\ndef broken(:\n");
    }
    s
}

type Snapshot = BTreeMap<String, String>;

fn rel(root: &Path, p: &Path) -> String {
    p.strip_prefix(root)
        .map(|r| r.to_string_lossy().to_string())
        .unwrap_or_else(|_| p.to_string_lossy().to_string())
}

fn snapshot(db: &FixtureDatabase, root: &Path, texts: &BTreeMap<String, String>) -> Snapshot {
    let mut snap = Snapshot::new();
    for f in FILES {
        let p = root.join(f);
        if !(f.contains("test_") || f.contains("conftest")) { continue; }
        // available fixtures
        let mut av: Vec<String> = db
            .get_available_fixtures(&p)
            .into_iter()
            .map(|d| format!("{}@{}:{}", d.name, rel(root, &d.file_path), d.line))
            .collect();
        av.sort();
        snap.insert(format!("avail {}", f), av.join(" "));
        // imported
        let mut visited = HashSet::new();
        let imp: BTreeSet<String> = db.get_imported_fixtures(&p, &mut visited).into_iter().collect();
        snap.insert(format!("imported {}", f), format!("{:?}", imp));
        // goto-def on test params
        if f.contains("test_") {
            let text = &texts[*f];
            if let Some((idx, line)) = text
                .lines()
                .enumerate()
                .find(|(_, l)| l.starts_with("def test_it("))
            {
                for n in NAMES {
                    let col = line.find(n).unwrap();
                    let d = db.find_fixture_definition(&p, idx as u32, col as u32);
                    snap.insert(
                        format!("goto {} {}", f, n),
                        d.map(|d| format!("{}:{}", rel(root, &d.file_path), d.line))
                            .unwrap_or_else(|| "-".into()),
                    );
                }
            }
        }
    }
    let mut cyc: Vec<String> = db
        .detect_fixture_cycles()
        .iter()
        .map(|c| {
            format!(
                "{:?}@{}:{}",
                c.cycle_path,
                rel(root, &c.fixture.file_path),
                c.fixture.line
            )
        })
        .collect();
    cyc.sort();
    snap.insert("cycles".into(), cyc.join(" "));
    snap
}

fn clear_derived(db: &FixtureDatabase) {
    db.imported_fixtures_cache.clear();
    db.available_fixtures_cache.clear();
    db.cycle_cache.clear();
}

fn diff(a: &Snapshot, b: &Snapshot) -> Vec<String> {
    let mut out = Vec::new();
    for (k, v) in a {
        let w = b.get(k).cloned().unwrap_or_default();
        if *v != w {
            out.push(format!("  {}\n     A: {}\n     B: {}", k, v, w));
        }
    }
    out
}

fn run_seed(seed: u64, with_broken: bool, report_fresh: bool) -> (usize, usize) {
    let mut rng = Rng(seed.wrapping_mul(0x9E3779B97F4A7C15) | 1);
    let dir = tempfile::tempdir().unwrap();
    let root = dir.path().canonicalize().unwrap();
    fs::create_dir_all(root.join("pkg/sub")).unwrap();
    fs::write(root.join("pkg/__init__.py"), "").unwrap();
    fs::write(root.join("pkg/sub/__init__.py"), "").unwrap();
    let mut disk: BTreeMap<String, String> = BTreeMap::new();
    for f in FILES {
        let c = gen_content(&mut rng, f, false);
        fs::write(root.join(f), &c).unwrap();
        disk.insert(f.to_string(), c);
    }
    let db = FixtureDatabase::new();
    db.scan_workspace(&root);
    let mut buffers: BTreeMap<String, String> = disk.clone();
    let mut open: BTreeSet<String> = BTreeSet::new();
    let mut log: Vec<String> = vec![format!("seed {}", seed)];
    let mut warm_cold = 0;
    let mut fresh_diffs = 0;

    for step in 0..25 {
        let f = FILES[rng.below(FILES.len())].to_string();
        let p: PathBuf = root.join(&f);
        match rng.below(10) {
            0..=4 => {
                // edit (open first if needed), saved to disk too
                if !open.contains(&f) {
                    db.document_opened(&p);
                    db.analyze_file(p.clone(), &buffers[&f]);
                    open.insert(f.clone());
                    log.push(format!("open {}", f));
                }
                let c = gen_content(&mut rng, &f, with_broken);
                db.document_opened(&p);
                db.analyze_file(p.clone(), &c);
                let broken = c.contains("def broken(:");
                if !broken {
                    fs::write(&p, &c).unwrap();
                    disk.insert(f.clone(), c.clone());
                }
                buffers.insert(f.clone(), c.clone());
                log.push(format!("change{} {}:\n{}", if broken { "(unsaved,broken)" } else { "+save" }, f, c));
            }
            5..=6 => {
                if !open.contains(&f) {
                    db.document_opened(&p);
                    db.analyze_file(p.clone(), &buffers[&f]);
                    open.insert(f.clone());
                    log.push(format!("open {}", f));
                }
            }
            _ => {
                if open.contains(&f) && buffers[&f] == disk[&f] {
                    db.document_closed(&p);
                    db.cleanup_file_cache(&p);
                    open.remove(&f);
                    log.push(format!("close {}", f));
                }
            }
        }
        // warm vs cold
        let warm = snapshot(&db, &root, &buffers);
        clear_derived(&db);
        let cold = snapshot(&db, &root, &buffers);
        let d = diff(&warm, &cold);
        if !d.is_empty() {
            warm_cold += 1;
            println!("=== WARM/COLD DIFF seed {} step {}\n{}\n{}", seed, step, log.join("\n"), d.join("\n"));
            return (warm_cold, fresh_diffs);
        }
    }
    // checkpoint: close everything that is unmodified; bring broken buffers back to disk text first
    for f in open.clone() {
        let p = root.join(&f);
        if buffers[&f] != disk[&f] {
            db.analyze_file(p.clone(), &disk[&f]);
            buffers.insert(f.clone(), disk[&f].clone());
            log.push(format!("revert {}", f));
        }
        db.document_closed(&p);
        db.cleanup_file_cache(&p);
        log.push(format!("close {}", f));
    }
    let warm = snapshot(&db, &root, &buffers);
    let fresh_db = FixtureDatabase::new();
    fresh_db.scan_workspace(&root);
    let fresh = snapshot(&fresh_db, &root, &buffers);
    let d = diff(&warm, &fresh);
    if !d.is_empty() {
        fresh_diffs += 1;
        if report_fresh {
            println!("=== HISTORY/FRESH DIFF seed {}\n{}\n{}", seed, log.join("\n"), d.join("\n"));
        }
    }
    (warm_cold, fresh_diffs)
}

#[test]
fn fuzz_warm_cold() {
    let mut wc = 0;
    let mut fr = 0;
    for seed in 1..150u64 {
        let (a, b) = run_seed(seed, false, false);
        wc += a;
        fr += b;
        if b > 0 { println!("fresh diff at seed {}", seed); }
    }
    println!("no-broken: warm/cold diffs {}, fresh diffs {}", wc, fr);
    let mut wc2 = 0;
    let mut fr2 = 0;
    for seed in 1000..1150u64 {
        let (a, b) = run_seed(seed, true, false);
        wc2 += a;
        fr2 += b;
        if b > 0 { println!("fresh diff at seed {} (broken)", seed); }
    }
    println!("broken: warm/cold diffs {}, fresh diffs {}", wc2, fr2);
}

#[test]
fn fuzz_fresh_report() {
    let seed: u64 = std::env::var("SEED").ok().and_then(|s| s.parse().ok()).unwrap_or(1);
    let broken = std::env::var("BROKEN").is_ok();
    run_seed(seed, broken, true);
}

fn simulate_eviction(db: &FixtureDatabase, open: &BTreeSet<String>, root: &Path, rng: &mut Rng) {
    // the same operations evict_cache_if_needed performs, on a random subset
    let keys: Vec<PathBuf> = db.file_cache.iter().map(|e| e.key().clone()).collect();
    for k in keys {
        if open.iter().any(|f| root.join(f) == k) {
            continue;
        }
        if rng.chance(60) {
            db.file_cache.remove(&k);
            db.line_index_cache.remove(&k);
            db.ast_cache.remove(&k);
            db.available_fixtures_cache.remove(&k);
            db.imported_fixtures_cache.remove(&k);
        }
    }
    db.definitions_version
        .fetch_add(1, std::sync::atomic::Ordering::SeqCst);
}

fn run_perturb(seed: u64, with_broken: bool) -> bool {
    let mut rng = Rng(seed.wrapping_mul(0x9E3779B97F4A7C15) | 1);
    let mut prng = Rng(seed.wrapping_mul(0xD1B54A32D192ED03) | 1);
    let dir = tempfile::tempdir().unwrap();
    let root = dir.path().canonicalize().unwrap();
    fs::create_dir_all(root.join("pkg/sub")).unwrap();
    fs::write(root.join("pkg/__init__.py"), "").unwrap();
    fs::write(root.join("pkg/sub/__init__.py"), "").unwrap();
    let mut disk: BTreeMap<String, String> = BTreeMap::new();
    for f in FILES {
        let c = gen_content(&mut rng, f, false);
        fs::write(root.join(f), &c).unwrap();
        disk.insert(f.to_string(), c);
    }
    let a = FixtureDatabase::new();
    a.scan_workspace(&root);
    let b = FixtureDatabase::new();
    b.scan_workspace(&root);
    let mut buffers = disk.clone();
    let mut open: BTreeSet<String> = BTreeSet::new();
    let mut log: Vec<String> = vec![format!("seed {}", seed)];

    for step in 0..25 {
        let f = FILES[rng.below(FILES.len())].to_string();
        let p: PathBuf = root.join(&f);
        match rng.below(10) {
            0..=5 => {
                if !open.contains(&f) {
                    for db in [&a, &b] {
                        db.document_opened(&p);
                        db.analyze_file(p.clone(), &buffers[&f]);
                    }
                    open.insert(f.clone());
                    log.push(format!("open {}", f));
                }
                let c = gen_content(&mut rng, &f, with_broken);
                for db in [&a, &b] {
                    db.document_opened(&p);
                    db.analyze_file(p.clone(), &c);
                }
                let broken = c.contains("def broken(:");
                if !broken {
                    fs::write(&p, &c).unwrap();
                    disk.insert(f.clone(), c.clone());
                }
                buffers.insert(f.clone(), c.clone());
                log.push(format!("change{} {}:\n{}", if broken { "(unsaved,broken)" } else { "+save" }, f, c));
            }
            6 => {
                if !open.contains(&f) {
                    for db in [&a, &b] {
                        db.document_opened(&p);
                        db.analyze_file(p.clone(), &buffers[&f]);
                    }
                    open.insert(f.clone());
                    log.push(format!("open {}", f));
                }
            }
            _ => {
                if open.contains(&f) && buffers[&f] == disk[&f] {
                    for db in [&a, &b] {
                        db.document_closed(&p);
                        db.cleanup_file_cache(&p);
                    }
                    open.remove(&f);
                    log.push(format!("close {}", f));
                }
            }
        }
        // perturbations on B only
        match prng.below(3) {
            0 => {
                let g = FILES[prng.below(FILES.len())].to_string();
                let gp = root.join(&g);
                if !open.contains(&g) && b.imports.contains_key(&gp) {
                    b.document_opened(&gp);
                    b.analyze_file(gp.clone(), &disk[&g]);
                    b.document_closed(&gp);
                    b.cleanup_file_cache(&gp);
                    log.push(format!("[B] open+close unmodified {}", g));
                }
            }
            1 => {
                simulate_eviction(&b, &open, &root, &mut prng);
                log.push("[B] eviction".into());
            }
            _ => {}
        }
        let sa = snapshot(&a, &root, &buffers);
        let sb = snapshot(&b, &root, &buffers);
        let d = diff(&sa, &sb);
        if !d.is_empty() {
            println!("=== PERTURB DIFF seed {} step {}\n{}\n{}", seed, step, log.join("\n"), d.join("\n"));
            return true;
        }
    }
    false
}

#[test]
fn fuzz_perturb() {
    let mut n = 0;
    for seed in 1..300u64 {
        if run_perturb(seed, seed % 2 == 0) {
            n += 1;
            if n >= 4 { break; }
        }
    }
    println!("perturb diffs: {}", n);
}

fn run_big(seed: u64, with_broken: bool) -> bool {
    let mut rng = Rng(seed.wrapping_mul(0x9E3779B97F4A7C15) | 1);
    let dira = tempfile::tempdir().unwrap();
    let dirb = tempfile::tempdir().unwrap();
    let roota = dira.path().canonicalize().unwrap();
    let rootb = dirb.path().canonicalize().unwrap();
    let mut disk: BTreeMap<String, String> = BTreeMap::new();
    for root in [&roota, &rootb] {
        fs::create_dir_all(root.join("pkg/sub")).unwrap();
        fs::write(root.join("pkg/__init__.py"), "").unwrap();
        fs::write(root.join("pkg/sub/__init__.py"), "").unwrap();
    }
    for f in FILES {
        let c = gen_content(&mut rng, f, false);
        fs::write(roota.join(f), &c).unwrap();
        fs::write(rootb.join(f), &c).unwrap();
        disk.insert(f.to_string(), c);
    }
    fs::create_dir_all(rootb.join("zfill")).unwrap();
    for i in 0..2750 {
        fs::write(rootb.join(format!("zfill/test_f{}.py", i)), "def test_x(f1):\n    pass\n").unwrap();
    }
    let a = FixtureDatabase::new();
    a.scan_workspace(&roota);
    let b = FixtureDatabase::new();
    b.scan_workspace(&rootb);
    println!("seed {} file_cache sizes: a={} b={}", seed, a.file_cache.len(), b.file_cache.len());
    let mut buffers = disk.clone();
    let mut open: BTreeSet<String> = BTreeSet::new();
    let mut log: Vec<String> = vec![format!("seed {}", seed)];
    for step in 0..20 {
        let sa = snapshot(&a, &roota, &buffers);
        let sb = snapshot(&b, &rootb, &buffers);
        let d = diff(&sa, &sb);
        if !d.is_empty() {
            println!("=== BIG DIFF seed {} step {} (cache b={})\n{}\n{}", seed, step, b.file_cache.len(), log.join("\n"), d.join("\n"));
            return true;
        }
        let f = FILES[rng.below(FILES.len())].to_string();
        match rng.below(10) {
            0..=6 => {
                let c = gen_content(&mut rng, &f, with_broken);
                let broken = c.contains("def broken(:");
                for (db, root) in [(&a, &roota), (&b, &rootb)] {
                    let p = root.join(&f);
                    if !open.contains(&f) {
                        db.document_opened(&p);
                        db.analyze_file(p.clone(), &buffers[&f]);
                    }
                    db.document_opened(&p);
                    db.analyze_file(p.clone(), &c);
                    if !broken {
                        fs::write(&p, &c).unwrap();
                    }
                }
                open.insert(f.clone());
                if !broken {
                    disk.insert(f.clone(), c.clone());
                }
                buffers.insert(f.clone(), c.clone());
                log.push(format!("change {} broken={}:\n{}", f, broken, c));
            }
            _ => {
                if open.contains(&f) && buffers[&f] == disk[&f] {
                    for (db, root) in [(&a, &roota), (&b, &rootb)] {
                        let p = root.join(&f);
                        db.document_closed(&p);
                        db.cleanup_file_cache(&p);
                    }
                    open.remove(&f);
                    log.push(format!("close {}", f));
                }
            }
        }
    }
    false
}

#[test]
fn fuzz_big() {
    let mut n = 0;
    for seed in 1..9u64 {
        if run_big(seed, seed % 2 == 0) {
            n += 1;
        }
    }
    println!("big diffs: {}", n);
}
