//! hunt_1: cache eviction during the workspace scan changes the answers.
//!
//! `scan_workspace` (phase 4, `scan_imported_fixture_modules`) takes the *content cache*
//! (`file_cache`) as the list of "files that were analysed and whose imports must be
//! followed".  In a workspace with more than MAX_FILE_CACHE_SIZE (2000) test/conftest files
//! `evict_cache_if_needed` throws ~25% of the entries away while phase 2 is running, so the
//! imports of the evicted conftest.py files are never followed: the fixture modules they
//! star-import are never analysed and their fixtures do not exist for the server.
//!
//! The same workspace shape, only smaller (no eviction), gives the complete answer.

use pytest_language_server::FixtureDatabase;
use std::fs;
use std::path::Path;

/// `n` packages `pkg_i/` with
///   conftest.py   : from .fx_i import *
///   fx_i.py       : @pytest.fixture def fix_i
///   test_i.py     : def test_it(fix_i)
fn build_workspace(root: &Path, n: usize) {
    for i in 0..n {
        let dir = root.join(format!("pkg_{i}"));
        fs::create_dir_all(&dir).unwrap();
        fs::write(dir.join("__init__.py"), "").unwrap();
        fs::write(dir.join("conftest.py"), format!("from .fx_{i} import *\n")).unwrap();
        fs::write(
            dir.join(format!("fx_{i}.py")),
            format!("import pytest\n\n\n@pytest.fixture\ndef fix_{i}():\n    return {i}\n"),
        )
        .unwrap();
        fs::write(
            dir.join(format!("test_{i}.py")),
            format!("def test_it(fix_{i}):\n    assert fix_{i} == {i}\n"),
        )
        .unwrap();
    }
}

/// Number of packages whose test file can see (available fixtures) and resolve
/// (go-to-definition on the parameter) its imported fixture.
fn count_answered(root: &Path, n: usize) -> (usize, usize) {
    let db = FixtureDatabase::new();
    db.scan_workspace(root);
    let mut available = 0;
    let mut resolved = 0;
    for i in 0..n {
        let test = root.join(format!("pkg_{i}")).join(format!("test_{i}.py"));
        let name = format!("fix_{i}");
        if db
            .get_available_fixtures(&test)
            .iter()
            .any(|d| d.name == name)
        {
            available += 1;
        }
        // `def test_it(fix_i)` - the parameter starts at column 12 of line 0
        if db.find_fixture_definition(&test, 0, 13).is_some() {
            resolved += 1;
        }
    }
    (available, resolved)
}

#[test]
fn small_workspace_is_complete() {
    // 300 packages = 600 cached files: no eviction. Control group.
    let tmp = tempfile::tempdir().unwrap();
    let root = tmp.path().canonicalize().unwrap();
    build_workspace(&root, 300);
    assert_eq!(count_answered(&root, 300), (300, 300));
}

#[test]
fn large_workspace_loses_imported_fixtures_through_eviction() {
    // 1100 packages = 2200 conftest/test files: the 2001st analysed file triggers an eviction.
    let n = 1100;
    let tmp = tempfile::tempdir().unwrap();
    let root = tmp.path().canonicalize().unwrap();
    build_workspace(&root, n);
    let (available, resolved) = count_answered(&root, n);
    println!("packages: {n}, imported fixture available in: {available}, resolvable in: {resolved}");
    assert_eq!(
        (available, resolved),
        (n, n),
        "cache eviction during the scan made imported fixtures disappear"
    );
}

/// Second symptom of the same root cause: phase 4 also uses "is in file_cache" as
/// "was already analysed".  A conftest.py that was analysed in phase 2, evicted, and is
/// imported by a test module (`from .conftest import CONST`, very common) is analysed a
/// second time with `analyze_file_fresh` (no clean-up) - every fixture in it is now
/// recorded twice.
#[test]
fn large_workspace_duplicates_definitions_through_eviction() {
    let n = 1100;
    let tmp = tempfile::tempdir().unwrap();
    let root = tmp.path().canonicalize().unwrap();
    for i in 0..n {
        let dir = root.join(format!("pkg_{i}"));
        fs::create_dir_all(&dir).unwrap();
        fs::write(dir.join("__init__.py"), "").unwrap();
        fs::write(
            dir.join("conftest.py"),
            format!("import pytest\n\nCONST = {i}\n\n\n@pytest.fixture\ndef fix_{i}():\n    return CONST\n"),
        )
        .unwrap();
        fs::write(
            dir.join(format!("test_{i}.py")),
            format!("from .conftest import CONST\n\n\ndef test_it(fix_{i}):\n    assert fix_{i} == CONST\n"),
        )
        .unwrap();
    }
    let db = FixtureDatabase::new();
    db.scan_workspace(&root);
    let duplicated = (0..n)
        .filter(|i| {
            db.definitions
                .get(&format!("fix_{i}"))
                .map(|d| d.len())
                .unwrap_or(0)
                != 1
        })
        .count();
    println!("fixtures recorded more than once (or not at all): {duplicated} of {n}");
    assert_eq!(duplicated, 0, "eviction during the scan duplicated definitions");
}
