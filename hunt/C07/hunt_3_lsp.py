#!/usr/bin/env python3
"""hunt_3 over stdio with the real binary.

scan -> didOpen(tests/test_a.py) -> completion  (answer 1)
     -> didOpen(site-packages/somelib/conftest.py, text == disk) -> didClose
     -> completion in tests/test_a.py again        (answer 2)
Property C07: answer 1 == answer 2.

usage: python3 hunt_3_lsp.py [path/to/pytest-language-server]
"""
import json
import os
import subprocess
import sys
import tempfile

BIN = sys.argv[1] if len(sys.argv) > 1 else os.path.join(
    os.path.dirname(os.path.abspath(__file__)), "target/debug/pytest-language-server")


class Lsp:
    def __init__(self):
        self.p = subprocess.Popen([BIN], stdin=subprocess.PIPE, stdout=subprocess.PIPE,
                                  stderr=subprocess.DEVNULL)
        self.id = 0

    def send(self, msg):
        body = json.dumps(msg).encode()
        self.p.stdin.write(b"Content-Length: %d\r\n\r\n" % len(body) + body)
        self.p.stdin.flush()

    def read(self):
        n = None
        while True:
            line = self.p.stdout.readline()
            if not line:
                raise EOFError
            line = line.strip()
            if not line:
                break
            if line.lower().startswith(b"content-length:"):
                n = int(line.split(b":")[1])
        return json.loads(self.p.stdout.read(n))

    def request(self, method, params):
        self.id += 1
        self.send({"jsonrpc": "2.0", "id": self.id, "method": method, "params": params})
        while True:
            m = self.read()
            if m.get("id") == self.id and "method" not in m:
                return m.get("result")
            if "id" in m and "method" in m:  # server->client request
                self.send({"jsonrpc": "2.0", "id": m["id"], "result": None})

    def notify(self, method, params):
        self.send({"jsonrpc": "2.0", "method": method, "params": params})

    def wait_log(self, needle):
        while True:
            m = self.read()
            if "id" in m and "method" in m:
                self.send({"jsonrpc": "2.0", "id": m["id"], "result": None})
            if m.get("method") == "window/logMessage" and needle in m["params"]["message"]:
                return


def uri(p):
    return "file://" + p


def main():
    root = os.path.realpath(tempfile.mkdtemp())
    sp = os.path.join(root, ".venv/lib/python3.12/site-packages")
    os.makedirs(os.path.join(sp, "_pytest"))
    os.makedirs(os.path.join(sp, "somelib"))
    os.makedirs(os.path.join(sp, "somelib-1.0.dist-info"))
    os.makedirs(os.path.join(root, "tests"))
    open(os.path.join(sp, "_pytest/tmpdir.py"), "w").write(
        "import pytest\n\n\n@pytest.fixture\ndef tmp_path():\n    return 1\n")
    open(os.path.join(sp, "somelib/__init__.py"), "w").write("")
    open(os.path.join(sp, "somelib-1.0.dist-info/METADATA"), "w").write("Name: somelib\n")
    lib = os.path.join(sp, "somelib/conftest.py")
    lib_src = ("import pytest\n\n\n@pytest.fixture\ndef lib_internal_fixture():\n    return 1\n\n\n"
               "@pytest.fixture\ndef client():\n    return 2\n")
    open(lib, "w").write(lib_src)
    test = os.path.join(root, "tests/test_a.py")
    test_src = "def test_a(tmp_path, ):\n    x = client\n"
    open(test, "w").write(test_src)

    s = Lsp()
    s.request("initialize", {"processId": None, "rootUri": uri(root), "capabilities": {},
                             "workspaceFolders": [{"uri": uri(root), "name": "w"}]})
    s.notify("initialized", {})
    s.wait_log("Workspace scan complete")

    diags = {}

    def open_doc(path, text):
        s.notify("textDocument/didOpen", {"textDocument": {
            "uri": uri(path), "languageId": "python", "version": 1, "text": text}})

    def complete():
        r = s.request("textDocument/completion", {
            "textDocument": {"uri": uri(test)}, "position": {"line": 0, "character": 20}})
        items = r if isinstance(r, list) else (r or {}).get("items", [])
        return sorted(i["label"] for i in items)

    open_doc(test, test_src)
    a1 = complete()
    open_doc(lib, lib_src)                       # unmodified: text == disk
    s.notify("textDocument/didClose", {"textDocument": {"uri": uri(lib)}})
    a2 = complete()
    print("completion in tests/test_a.py before open/close of the library file:", a1)
    print("completion in tests/test_a.py after  open/close of the library file:", a2)
    s.request("shutdown", None)
    if a1 != a2:
        print("FAIL: opening and closing an unmodified document changed the answers")
        sys.exit(1)
    print("ok")


if __name__ == "__main__":
    main()
