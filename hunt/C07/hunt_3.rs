//! hunt_3: opening and closing an unmodified document changes the answers for every
//! other document - library file in site-packages that is not a pytest plugin.
//!
//! The workspace scan only analyses site-packages files that are pytest plugins (pytest11
//! entry points, `_pytest`).  Many libraries ship a conftest.py / testing helpers with
//! fixtures inside site-packages (pandas/conftest.py, numpy/conftest.py, ...), which pytest
//! does NOT make available to the user's tests.  When the user merely looks at such a file
//! (go-to-definition from another language server opens it -> did_open; then did_close),
//! `analyze_file` records its fixtures with `is_third_party = true`
//! (analyzer.rs:475 `path_is_in_site_packages`), and "third-party" fixtures are priority 4 =
//! available in every file of the workspace (resolver.rs:289, :588).  did_close
//! (`cleanup_file_cache`, mod.rs:308) only drops the text caches, never the definitions.
//!
//! History: scan; Q1; did_open(lib/conftest.py, text == disk); did_close; Q2.
//! Property: Q1 == Q2 ("Opening and then closing an unmodified document ... never changes
//! the answers for any document").

use pytest_language_server::FixtureDatabase;
use std::fs;

#[test]
fn open_close_of_unmodified_library_file_is_invisible() {
    let tmp = tempfile::tempdir().unwrap();
    let root = tmp.path().canonicalize().unwrap();

    // a venv with pytest itself and one ordinary library that ships its own test-suite
    let sp = root.join(".venv/lib/python3.12/site-packages");
    fs::create_dir_all(sp.join("_pytest")).unwrap();
    fs::write(
        sp.join("_pytest/tmpdir.py"),
        "import pytest\n\n\n@pytest.fixture\ndef tmp_path():\n    return 1\n",
    )
    .unwrap();
    fs::create_dir_all(sp.join("somelib")).unwrap();
    fs::create_dir_all(sp.join("somelib-1.0.dist-info")).unwrap();
    fs::write(sp.join("somelib-1.0.dist-info/METADATA"), "Name: somelib\n").unwrap();
    fs::write(sp.join("somelib/__init__.py"), "").unwrap();
    let lib_conftest = sp.join("somelib/conftest.py");
    let lib_src = "import pytest\n\n\n@pytest.fixture\ndef lib_internal_fixture():\n    return 1\n\n\n@pytest.fixture(autouse=True)\ndef client():\n    return 2\n";
    fs::write(&lib_conftest, lib_src).unwrap();

    // the user's project
    fs::create_dir_all(root.join("tests")).unwrap();
    let test_a = root.join("tests/test_a.py");
    let test_src = "import pytest\n\n\ndef test_a(tmp_path):\n    x = client\n    lib_internal_fixture()\n";
    fs::write(&test_a, test_src).unwrap();

    let db = FixtureDatabase::new();
    db.scan_workspace(&root);

    let snapshot = |db: &FixtureDatabase| {
        // what a client would see for tests/test_a.py: re-open (did_open) + queries
        db.analyze_file(test_a.clone(), test_src);
        let mut avail: Vec<String> = db
            .get_available_fixtures(&test_a)
            .into_iter()
            .map(|d| d.name)
            .collect();
        avail.sort();
        let undeclared: Vec<String> = db
            .get_undeclared_fixtures(&test_a)
            .into_iter()
            .map(|u| u.name)
            .collect();
        (avail, undeclared)
    };

    let q1 = snapshot(&db);
    assert_eq!(q1.0, vec!["tmp_path".to_string()]);

    // the user looks at the library file: did_open with the unmodified text, then did_close
    db.analyze_file(lib_conftest.clone(), lib_src);
    db.cleanup_file_cache(&lib_conftest);

    let q2 = snapshot(&db);
    println!("before open/close: available={:?} undeclared={:?}", q1.0, q1.1);
    println!("after  open/close: available={:?} undeclared={:?}", q2.0, q2.1);
    assert_eq!(q1, q2, "opening+closing an unmodified library file changed the answers for tests/test_a.py");
}
