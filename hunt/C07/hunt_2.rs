//! hunt_2: pressure-driven eviction throws away the *unsaved editor text* of open documents.
//!
//! `file_cache` holds two different things: a re-readable copy of files on disk (workspace
//! scan) and the only copy of the text of documents that are open and modified in the editor
//! (did_open / did_change).  `evict_cache_if_needed` (src/fixtures/mod.rs:345) removes the
//! first 25% of the map in iteration order without telling the two apart, and
//! `get_file_content` (mod.rs:181) then silently falls back to the file on disk.
//! After that every query that reads text (imports of a conftest, go-to-definition,
//! completion context) is answered from the stale disk version although the definitions /
//! usages in the index still describe the editor version.
//!
//! History (all through the public API, equivalent to did_open/did_change):
//!   1. workspace on disk: conftest.py (no imports), fx.py (fixture `imported_fix`),
//!      test_a.py (uses it)
//!   2. the user edits conftest.py in the editor to `from .fx import *` (not saved)
//!      -> `imported_fix` is available in test_a.py                      (answer A)
//!   3. other files keep being analysed (a large workspace) until the cache is over its
//!      limit and conftest.py happens to be among the evicted entries
//!   4. same query again                                                  (answer B)
//! Property: A == B.  Observed: B has lost `imported_fix`.

use pytest_language_server::FixtureDatabase;
use std::fs;

#[test]
fn eviction_must_not_drop_unsaved_text_of_an_open_conftest() {
    let tmp = tempfile::tempdir().unwrap();
    let root = tmp.path().canonicalize().unwrap();
    let conftest = root.join("conftest.py");
    let fx = root.join("fx.py");
    let test_a = root.join("test_a.py");
    let fx_src = "import pytest\n\n\n@pytest.fixture\ndef imported_fix():\n    return 1\n";
    let test_src = "def test_a(imported_fix):\n    assert imported_fix\n";
    fs::write(&conftest, "import pytest\n").unwrap();
    fs::write(&fx, fx_src).unwrap();
    fs::write(&test_a, test_src).unwrap();

    let db = FixtureDatabase::new();
    db.scan_workspace(&root);
    db.analyze_file(fx.clone(), fx_src); // the user also has fx.py open

    // did_change(conftest.py): unsaved edit adds the star import
    let edited = "import pytest\nfrom .fx import *\n";
    db.analyze_file(conftest.clone(), edited);

    let names = |db: &FixtureDatabase| -> Vec<String> {
        db.get_available_fixtures(&test_a)
            .into_iter()
            .map(|d| d.name)
            .collect()
    };
    let before = names(&db);
    let goto_before = db.find_fixture_definition(&test_a, 0, 12).map(|d| d.file_path);
    assert_eq!(before, vec!["imported_fix".to_string()]);
    assert_eq!(goto_before, Some(fx.clone()));

    // A very large workspace: other files are analysed (opened / changed) one after the
    // other.  Stop as soon as an eviction round has hit conftest.py.
    let mut analysed = 0usize;
    while db.file_cache.contains_key(&conftest) {
        let p = root.join(format!("bulk/test_bulk_{analysed}.py"));
        db.analyze_file(p, "def test_x():\n    pass\n");
        analysed += 1;
        assert!(analysed < 200_000, "conftest.py never evicted");
    }
    println!("conftest.py evicted after {analysed} further analyses");
    // nothing about conftest.py, fx.py or test_a.py was edited in between
    assert_eq!(
        db.file_definitions.get(&fx).map(|s| s.len()),
        Some(1),
        "fx.py still defines its fixture"
    );

    let after = names(&db);
    let goto_after = db.find_fixture_definition(&test_a, 0, 12).map(|d| d.file_path);
    println!("available before eviction: {before:?}   after: {after:?}");
    println!("goto-def  before eviction: {goto_before:?}   after: {goto_after:?}");
    assert_eq!(before, after, "eviction changed the available fixtures of test_a.py");
    assert_eq!(goto_before, goto_after, "eviction changed go-to-definition in test_a.py");
}

/// Same root cause, seen from inside the open document itself: after eviction the server
/// answers position queries from the disk text while usages describe the editor text.
#[test]
fn eviction_must_not_change_goto_definition_inside_an_open_modified_test() {
    let tmp = tempfile::tempdir().unwrap();
    let root = tmp.path().canonicalize().unwrap();
    let conftest = root.join("conftest.py");
    let test_a = root.join("test_a.py");
    let conf_src = "import pytest\n\n\n@pytest.fixture\ndef my_fix():\n    return 1\n";
    fs::write(&conftest, conf_src).unwrap();
    fs::write(&test_a, "def test_a():\n    pass\n").unwrap();

    let db = FixtureDatabase::new();
    db.scan_workspace(&root);
    // unsaved edit: the test now requests my_fix
    db.analyze_file(test_a.clone(), "def test_a(my_fix):\n    pass\n");
    let before = db.find_fixture_definition(&test_a, 0, 12).map(|d| d.name);
    assert_eq!(before.as_deref(), Some("my_fix"));

    let mut analysed = 0usize;
    while db.file_cache.contains_key(&test_a) {
        let p = root.join(format!("bulk/test_bulk_{analysed}.py"));
        db.analyze_file(p, "def test_x():\n    pass\n");
        analysed += 1;
        assert!(analysed < 200_000, "test_a.py never evicted");
    }
    let after = db.find_fixture_definition(&test_a, 0, 12).map(|d| d.name);
    println!("goto-def on the parameter before eviction: {before:?}, after: {after:?}");
    assert_eq!(before, after);
}
