//! hunt_4: re-analysing an UNMODIFIED document (did_open followed by did_close) reorders the
//! per-name definition list, and resolution among same-priority candidates is "first in the
//! list wins".
//!
//! Two installed pytest plugins define a fixture with the same name (real life: `client` in
//! pytest-django and pytest-flask, `anyio_backend`, `event_loop`, ...).  Priority 3/4 in
//! `find_closest_definition_with_filter` (resolver.rs:274-297) and in
//! `compute_available_fixtures` (resolver.rs:574-596) return the first plugin / third-party
//! definition in `definitions[name]` (a Vec in registration order).
//! `analyze_file` removes the file's definitions and pushes them again at the END of that
//! Vec (analyzer.rs:139 + :283), so just opening one of the two plugin files - text
//! identical to disk - and closing it again flips go-to-definition / hover / completion
//! detail for that fixture in every test file of the workspace.  A freshly started server
//! on the same tree gives the first answer again.

use pytest_language_server::FixtureDatabase;
use std::fs;
use std::path::PathBuf;

#[test]
fn open_close_of_unmodified_plugin_file_is_invisible() {
    let tmp = tempfile::tempdir().unwrap();
    let root = tmp.path().canonicalize().unwrap();
    let sp = root.join(".venv/lib/python3.12/site-packages");

    let mut plugin_files: Vec<(PathBuf, String)> = Vec::new();
    for (pkg, ret) in [("pytest_aaa", "AaaClient"), ("pytest_bbb", "BbbClient")] {
        fs::create_dir_all(sp.join(pkg)).unwrap();
        fs::create_dir_all(sp.join(format!("{pkg}-1.0.dist-info"))).unwrap();
        fs::write(
            sp.join(format!("{pkg}-1.0.dist-info/entry_points.txt")),
            format!("[pytest11]\n{pkg} = {pkg}.plugin\n"),
        )
        .unwrap();
        fs::write(sp.join(pkg).join("__init__.py"), "").unwrap();
        let src = format!(
            "import pytest\n\n\n@pytest.fixture\ndef client() -> \"{ret}\":\n    \"\"\"client of {pkg}\"\"\"\n    return None\n"
        );
        let p = sp.join(pkg).join("plugin.py");
        fs::write(&p, &src).unwrap();
        plugin_files.push((p, src));
    }

    fs::create_dir_all(root.join("tests")).unwrap();
    let test_a = root.join("tests/test_a.py");
    fs::write(&test_a, "def test_a(client):\n    pass\n").unwrap();

    let query = |db: &FixtureDatabase| {
        let goto = db
            .find_fixture_definition(&test_a, 0, 12)
            .map(|d| d.file_path);
        let avail = db
            .get_available_fixtures(&test_a)
            .into_iter()
            .find(|d| d.name == "client")
            .map(|d| d.file_path);
        (goto, avail)
    };

    // cold server
    let db = FixtureDatabase::new();
    db.scan_workspace(&root);
    let cold = query(&db);
    let winner = cold.0.clone().expect("client resolves");
    println!("cold server: client -> {winner:?}");

    // open + close the plugin file that currently wins, without modifying it
    let (path, src) = plugin_files
        .iter()
        .find(|(p, _)| *p == winner)
        .expect("winner is one of the two plugins");
    db.analyze_file(path.clone(), src); // did_open, text == disk
    db.cleanup_file_cache(path); // did_close

    let warm = query(&db);
    println!("after open/close of that file: client -> {:?}", warm.0);

    // a second cold server on the identical tree agrees with the first one
    let db2 = FixtureDatabase::new();
    db2.scan_workspace(&root);
    assert_eq!(query(&db2), cold, "two cold servers agree");

    assert_eq!(
        cold, warm,
        "opening+closing an unmodified plugin file changed which `client` tests/test_a.py resolves to"
    );
}
