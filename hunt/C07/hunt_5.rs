//! hunt_5: `canonical_path_cache` caches FAILED canonicalisations forever.
//!
//! `get_canonical_path` (src/fixtures/mod.rs:162-177) stores `path -> path` when
//! `canonicalize()` fails (file does not exist yet) and never invalidates the entry.
//! `find_module_file` (imports.rs:381, :393) calls it for every module candidate that does
//! not exist, i.e. every query over a conftest with a not-yet-resolvable import poisons the
//! cache.  When the module is created later *behind a symlink* (shared fixture directory
//! linked into several test trees - a common monorepo layout), the warm server keeps using
//! the un-canonical spelling, which is not the key under which the module's fixtures were
//! indexed; a cold server on the identical tree resolves it.
//!
//! History:
//!   tests/conftest.py : from .shared.fx import *      (tests/shared -> ../common, symlink)
//!   1. scan; query available fixtures of tests/test_a.py      (common/fx.py not there yet)
//!   2. common/fx.py is created and opened in the editor (did_open, path = common/fx.py)
//!   3. same query on the warm server  vs.  on a cold server (fresh scan of the same tree)

#![cfg(unix)]

use pytest_language_server::FixtureDatabase;
use std::fs;

#[test]
fn warm_and_cold_server_agree_after_module_is_created_behind_symlink() {
    let tmp = tempfile::tempdir().unwrap();
    let root = tmp.path().canonicalize().unwrap();
    fs::create_dir_all(root.join("common")).unwrap();
    fs::create_dir_all(root.join("tests")).unwrap();
    std::os::unix::fs::symlink("../common", root.join("tests/shared")).unwrap();
    fs::write(root.join("common/__init__.py"), "").unwrap();
    fs::write(root.join("tests/__init__.py"), "").unwrap();
    let conftest = root.join("tests/conftest.py");
    fs::write(&conftest, "from .shared.fx import *\n").unwrap();
    let test_a = root.join("tests/test_a.py");
    fs::write(&test_a, "def test_a(late_fix):\n    pass\n").unwrap();

    let names = |db: &FixtureDatabase| -> Vec<String> {
        db.get_available_fixtures(&test_a)
            .into_iter()
            .map(|d| d.name)
            .collect()
    };

    let warm = FixtureDatabase::new();
    warm.scan_workspace(&root);
    assert!(names(&warm).is_empty()); // step 1: nothing to import yet

    // step 2: the module appears and is opened (did_open uses the canonical path, see
    // Backend::uri_to_path)
    let fx = root.join("common/fx.py");
    let fx_src = "import pytest\n\n\n@pytest.fixture\ndef late_fix():\n    return 1\n";
    fs::write(&fx, fx_src).unwrap();
    warm.analyze_file(fx.clone(), fx_src);

    // step 3
    let warm_answer = names(&warm);
    let warm_goto = warm.find_fixture_definition(&test_a, 0, 12).map(|d| d.file_path);

    let cold = FixtureDatabase::new();
    cold.scan_workspace(&root);
    cold.analyze_file(fx.clone(), fx_src);
    let cold_answer = names(&cold);
    let cold_goto = cold.find_fixture_definition(&test_a, 0, 12).map(|d| d.file_path);

    println!("warm server: available={warm_answer:?} goto={warm_goto:?}");
    println!("cold server: available={cold_answer:?} goto={cold_goto:?}");
    println!(
        "stale entry: {:?}",
        warm.canonical_path_cache
            .get(&root.join("tests/shared/fx.py"))
            .map(|e| e.value().clone())
    );
    assert_eq!(cold_answer, vec!["late_fix".to_string()]);
    assert_eq!(warm_answer, cold_answer);
    assert_eq!(warm_goto, cold_goto);
}
