#!/usr/bin/env python3
"""C16 hunt 5: a cross-file cycle is carried by a fixture in a file that is NOT the one
being edited; the server republishes diagnostics only for the edited document, so the
cycle is reported nowhere (and, symmetrically, stays reported after it has been removed).

Drives the real binary over stdio.  Usage: python3 hunt_5.py [path-to-binary]
"""
import json, os, subprocess, sys, tempfile, threading, time, queue

BIN = sys.argv[1] if len(sys.argv) > 1 else os.path.join(os.path.dirname(os.path.abspath(__file__)), "target/debug/pytest-language-server")

root = os.path.realpath(tempfile.mkdtemp(prefix="c16_h5_"))
CONFTEST = os.path.join(root, "conftest.py")
MOD = os.path.join(root, "fixtures_mod.py")
TEST = os.path.join(root, "test_x.py")

CONFTEST_OK = """import pytest
from fixtures_mod import *

@pytest.fixture
def beta():
    return 1
"""
CONFTEST_CYCLE = """import pytest
from fixtures_mod import *

@pytest.fixture
def beta(alpha):
    return alpha
"""
MOD_SRC = """import pytest

@pytest.fixture
def alpha(beta):
    return beta
"""
TEST_SRC = "def test_it(alpha):\n    pass\n"
for p, s in ((CONFTEST, CONFTEST_OK), (MOD, MOD_SRC), (TEST, TEST_SRC)):
    open(p, "w").write(s)

proc = subprocess.Popen([BIN], stdin=subprocess.PIPE, stdout=subprocess.PIPE, stderr=subprocess.DEVNULL)
inbox = queue.Queue()
lock = threading.Lock()

def send(msg):
    body = json.dumps(msg).encode()
    with lock:
        proc.stdin.write(b"Content-Length: %d\r\n\r\n" % len(body) + body)
        proc.stdin.flush()

def reader():
    while True:
        headers = {}
        while True:
            line = proc.stdout.readline()
            if not line:
                return
            line = line.decode().strip()
            if not line:
                break
            k, v = line.split(": ", 1)
            headers[k] = v
        msg = json.loads(proc.stdout.read(int(headers["Content-Length"])).decode())
        if "method" in msg and "id" in msg:       # server->client request: acknowledge
            send({"jsonrpc": "2.0", "id": msg["id"], "result": None})
        inbox.put(msg)

threading.Thread(target=reader, daemon=True).start()

latest = {}   # uri -> latest published diagnostics

def pump(until=None, timeout=3.0):
    """Drain messages for `timeout` seconds (or until predicate is true)."""
    end = time.time() + timeout
    while time.time() < end:
        try:
            msg = inbox.get(timeout=0.1)
        except queue.Empty:
            continue
        if msg.get("method") == "textDocument/publishDiagnostics":
            latest[msg["params"]["uri"]] = msg["params"]["diagnostics"]
        if until and until(msg):
            return True
    return False

def uri(p): return "file://" + p

send({"jsonrpc": "2.0", "id": 1, "method": "initialize",
      "params": {"processId": None, "rootUri": uri(root), "capabilities": {},
                 "workspaceFolders": [{"uri": uri(root), "name": "w"}]}})
pump(lambda m: m.get("id") == 1, 10)
send({"jsonrpc": "2.0", "method": "initialized", "params": {}})
ok = pump(lambda m: m.get("method") == "window/logMessage" and "scan complete" in m["params"]["message"], 20)
assert ok, "scan did not complete"

def did_open(p, text):
    send({"jsonrpc": "2.0", "method": "textDocument/didOpen",
          "params": {"textDocument": {"uri": uri(p), "languageId": "python", "version": 1, "text": text}}})
ver = [1]
def did_change(p, text):
    ver[0] += 1
    send({"jsonrpc": "2.0", "method": "textDocument/didChange",
          "params": {"textDocument": {"uri": uri(p), "version": ver[0]}, "contentChanges": [{"text": text}]}})

def cyc():
    return {os.path.basename(u): [d["message"] for d in ds if d.get("code") == "circular-dependency"]
            for u, ds in latest.items()}

did_open(CONFTEST, CONFTEST_OK); did_open(MOD, MOD_SRC); did_open(TEST, TEST_SRC)
pump(timeout=1.5)
print("step 1 (no cycle yet)            :", cyc())

# Step 2: the user closes the chain by editing conftest.py:  alpha -> beta -> alpha
did_change(CONFTEST, CONFTEST_CYCLE)
pump(timeout=1.5)
step2 = cyc()
print("step 2 (cycle introduced)        :", step2)
reported_after_intro = any(v for v in step2.values())

# Step 3: touching fixtures_mod.py makes the server finally publish it (on alpha)
did_change(MOD, MOD_SRC + "\n")
pump(timeout=1.5)
print("step 3 (unrelated touch of mod)  :", cyc())

# Step 4: the user breaks the chain again in conftest.py
did_change(CONFTEST, CONFTEST_OK)
pump(timeout=1.5)
step4 = cyc()
print("step 4 (cycle removed)           :", step4)
stale_after_fix = any(v for v in step4.values())

send({"jsonrpc": "2.0", "id": 99, "method": "shutdown", "params": None})
pump(lambda m: m.get("id") == 99, 3)
send({"jsonrpc": "2.0", "method": "exit", "params": None})
try: proc.wait(3)
except Exception: proc.kill()

fail = False
if not reported_after_intro:
    print("FAIL: cycle alpha -> beta -> alpha exists after step 2, all three documents are open, "
          "yet no open document carries a circular-dependency diagnostic")
    fail = True
if stale_after_fix:
    print("FAIL: no cycle exists after step 4, yet a circular-dependency diagnostic is still displayed")
    fail = True
print("RESULT:", "VIOLATION" if fail else "ok")
sys.exit(1 if fail else 0)
