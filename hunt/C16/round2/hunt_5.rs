//! C16 hunt 5: fixture definitions inside module-level `if` / `try` / `with` blocks are
//! not indexed at all (analyzer.rs:525-543 `_ => return`; imports in such blocks are
//! followed since 23c456c, definitions are not). Cycles through them are missed and the
//! scope check selects a farther, shadowed definition.
use pytest_language_server::FixtureDatabase;
use std::fs;
use std::path::PathBuf;

fn ws(files: &[(&str, &str)]) -> (tempfile::TempDir, PathBuf) {
    let dir = tempfile::tempdir().unwrap();
    let root = dir.path().canonicalize().unwrap();
    for (rel, content) in files {
        let p = root.join(rel);
        fs::create_dir_all(p.parent().unwrap()).unwrap();
        fs::write(&p, content).unwrap();
    }
    (dir, root)
}

#[test]
fn cycle_through_a_guarded_definition_is_reported() {
    std::env::remove_var("VIRTUAL_ENV");
    let (_d, root) = ws(&[(
        "conftest.py",
        r#"import pytest

try:
    import redis
except ImportError:
    redis = None
else:
    @pytest.fixture
    def cache(settings):
        return redis.Redis()


@pytest.fixture
def settings(cache):
    return {}
"#,
    )]);
    let db = FixtureDatabase::new();
    db.scan_workspace(&root);
    assert!(
        !db.detect_fixture_cycles().is_empty(),
        "cache -> settings -> cache is a closed chain, nothing reported"
    );
}

#[test]
fn scope_check_sees_the_guarded_override_in_the_closest_conftest() {
    std::env::remove_var("VIRTUAL_ENV");
    let (_d, root) = ws(&[
        (
            "conftest.py",
            "import pytest\n\n\n@pytest.fixture(scope=\"session\")\ndef server():\n    return 1\n",
        ),
        (
            "sub/conftest.py",
            r#"import sys
import pytest

if sys.platform != "win32":
    @pytest.fixture
    def server():              # function-scoped override of the session-scoped one
        return 2


@pytest.fixture(scope="session")
def client(server):            # session -> function: ScopeMismatch in pytest
    return server
"#,
        ),
    ]);
    let db = FixtureDatabase::new();
    db.scan_workspace(&root);
    let mismatches = db.detect_scope_mismatches_in_file(&root.join("sub/conftest.py"));
    assert_eq!(
        mismatches.len(),
        1,
        "client(session) requests server, which sub/conftest.py overrides with function scope"
    );
}
