//! C16 adjacent observations (literal readings of the statement; not counted as findings).
use pytest_language_server::FixtureDatabase;
use std::fs;
use std::path::PathBuf;

fn ws(files: &[(&str, &str)]) -> (tempfile::TempDir, PathBuf) {
    let dir = tempfile::tempdir().unwrap();
    let root = dir.path().canonicalize().unwrap();
    for (rel, content) in files {
        let p = root.join(rel);
        fs::create_dir_all(p.parent().unwrap()).unwrap();
        fs::write(&p, content).unwrap();
    }
    (dir, root)
}

/// a -> b -> a and a -> c -> b -> a: only [a, b] is reported; `c`, which lies on a closed
/// chain, is mentioned by no reported cycle (DFS marks b visited before reaching c -> b).
#[test]
fn a_fixture_on_a_cycle_is_mentioned_by_no_reported_cycle() {
    std::env::remove_var("VIRTUAL_ENV");
    let (_d, root) = ws(&[(
        "conftest.py",
        "import pytest\n\n@pytest.fixture\ndef a(b, c):\n    return 1\n\n@pytest.fixture\ndef b(a):\n    return 1\n\n@pytest.fixture\ndef c(b):\n    return 1\n",
    )]);
    let db = FixtureDatabase::new();
    db.scan_workspace(&root);
    let cycles = db.detect_fixture_cycles();
    assert!(
        cycles.iter().any(|c| c.cycle_path.iter().any(|n| n == "c")),
        "c is on a -> c -> b -> a but appears in no reported cycle: {:?}",
        cycles.iter().map(|c| c.cycle_path.clone()).collect::<Vec<_>>()
    );
}

/// The file that carries a cross-file cycle error moves when an unrelated fixture that
/// merely depends on a member is added elsewhere (DFS start order = name order).
#[test]
fn carrier_of_a_cross_file_cycle_moves_with_an_unrelated_fixture() {
    std::env::remove_var("VIRTUAL_ENV");
    let (_d, root) = ws(&[
        (
            "conftest.py",
            "import pytest\nfrom base import *\n\n@pytest.fixture\ndef x(y):\n    return 1\n",
        ),
        ("base.py", "import pytest\n\n@pytest.fixture\ndef y(x):\n    return 1\n"),
    ]);
    let db = FixtureDatabase::new();
    db.scan_workspace(&root);
    let before: Vec<PathBuf> = db
        .detect_fixture_cycles()
        .iter()
        .map(|c| c.fixture.file_path.clone())
        .collect();
    fs::write(
        root.join("test_z.py"),
        "import pytest\n\n@pytest.fixture\ndef aaa(y):\n    return 1\n",
    )
    .unwrap();
    let db = FixtureDatabase::new();
    db.scan_workspace(&root);
    let after: Vec<PathBuf> = db
        .detect_fixture_cycles()
        .iter()
        .map(|c| c.fixture.file_path.clone())
        .collect();
    assert_eq!(before, after, "the same cycle is now reported in another file");
}
