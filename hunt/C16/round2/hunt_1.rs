//! C16 hunt 1: overriding a fixture whose parent the index does not know (a pytest builtin
//! such as `caplog` when no virtualenv lives below the workspace root) is reported as a
//! circular dependency, although pytest resolves the parameter to the builtin parent.
use pytest_language_server::FixtureDatabase;
use std::fs;
use std::path::PathBuf;

fn ws(files: &[(&str, &str)]) -> (tempfile::TempDir, PathBuf) {
    let dir = tempfile::tempdir().unwrap();
    let root = dir.path().canonicalize().unwrap();
    for (rel, content) in files {
        let p = root.join(rel);
        fs::create_dir_all(p.parent().unwrap()).unwrap();
        fs::write(&p, content).unwrap();
    }
    (dir, root)
}

const CONFTEST: &str = r#"import logging
import pytest


@pytest.fixture
def caplog(caplog):
    # documented pattern: extend a builtin fixture under its own name
    caplog.set_level(logging.DEBUG)
    return caplog


@pytest.fixture
def tmp_path(tmp_path):
    (tmp_path / "data").mkdir()
    return tmp_path
"#;

/// No venv below the workspace root and no VIRTUAL_ENV (conda, pipenv, poetry's cache dir,
/// tox, system interpreter ...): pytest still resolves `caplog` to its builtin.
#[test]
fn override_of_builtin_without_indexed_venv_is_not_a_cycle() {
    std::env::remove_var("VIRTUAL_ENV");
    let (_d, root) = ws(&[
        ("conftest.py", CONFTEST),
        ("test_x.py", "def test_x(caplog, tmp_path):\n    pass\n"),
    ]);
    let db = FixtureDatabase::new();
    db.scan_workspace(&root);
    let cycles = db.detect_fixture_cycles();
    let shown: Vec<String> = cycles
        .iter()
        .map(|c| format!("{} @ line {}", c.cycle_path.join(" -> "), c.fixture.line))
        .collect();
    assert!(
        cycles.is_empty(),
        "false circular-dependency errors on the override-a-builtin pattern: {:?}",
        shown
    );
}

/// Control: same workspace, but with a venv that carries `_pytest`: no cycle. The verdict
/// therefore depends on where the interpreter is installed, not on the dependency graph.
#[test]
fn control_same_workspace_with_in_tree_venv() {
    std::env::remove_var("VIRTUAL_ENV");
    let (_d, root) = ws(&[
        ("conftest.py", CONFTEST),
        ("test_x.py", "def test_x(caplog, tmp_path):\n    pass\n"),
        (
            ".venv/lib/python3.11/site-packages/_pytest/logging.py",
            "from .fixtures import fixture\n\n@fixture\ndef caplog(request):\n    yield 1\n",
        ),
        (
            ".venv/lib/python3.11/site-packages/_pytest/tmpdir.py",
            "from .fixtures import fixture\n\n@fixture\ndef tmp_path(request):\n    yield 1\n",
        ),
    ]);
    let db = FixtureDatabase::new();
    db.scan_workspace(&root);
    assert!(db.detect_fixture_cycles().is_empty());
}
