//! C16 hunt 4: a `scope=` argument that is not a string literal (a module constant, a
//! conditional expression, a callable for dynamic scope) is silently read as
//! scope="function" (decorators.rs:250-256 + analyzer.rs:615 `unwrap_or_default`).
use pytest_language_server::FixtureDatabase;
use std::fs;
use std::path::PathBuf;

fn ws(files: &[(&str, &str)]) -> (tempfile::TempDir, PathBuf) {
    let dir = tempfile::tempdir().unwrap();
    let root = dir.path().canonicalize().unwrap();
    for (rel, content) in files {
        let p = root.join(rel);
        fs::create_dir_all(p.parent().unwrap()).unwrap();
        fs::write(&p, content).unwrap();
    }
    (dir, root)
}

const CONFTEST: &str = r#"import pytest

DB_SCOPE = "session"


@pytest.fixture(scope=DB_SCOPE)
def engine():
    return object()


@pytest.fixture(scope="session")
def database(engine):          # session -> session: fine in pytest
    return object()


@pytest.fixture
def row():
    return object()


@pytest.fixture(scope=DB_SCOPE)
def table(row):                # session -> function: ScopeMismatch in pytest
    return object()
"#;

#[test]
fn no_warning_against_a_dependency_whose_scope_is_a_constant() {
    std::env::remove_var("VIRTUAL_ENV");
    let (_d, root) = ws(&[("conftest.py", CONFTEST)]);
    let db = FixtureDatabase::new();
    db.scan_workspace(&root);
    let mismatches = db.detect_scope_mismatches_in_file(&root.join("conftest.py"));
    let on_database: Vec<_> = mismatches
        .iter()
        .filter(|m| m.fixture.name == "database")
        .map(|m| format!("database({:?}) -> engine({:?})", m.fixture.scope, m.dependency.scope))
        .collect();
    assert!(
        on_database.is_empty(),
        "engine is session-scoped (scope=DB_SCOPE), yet: {:?}",
        on_database
    );
}

#[test]
fn warning_on_a_fixture_whose_own_scope_is_a_constant() {
    std::env::remove_var("VIRTUAL_ENV");
    let (_d, root) = ws(&[("conftest.py", CONFTEST)]);
    let db = FixtureDatabase::new();
    db.scan_workspace(&root);
    let mismatches = db.detect_scope_mismatches_in_file(&root.join("conftest.py"));
    assert!(
        mismatches.iter().any(|m| m.fixture.name == "table"),
        "table is session-scoped (scope=DB_SCOPE) and requests the function-scoped row: \
         mismatch expected, none reported"
    );
}
