//! C16 hunt 2: a module that imports a fixture and then defines one of the same name has
//! rebound the name - the imported fixture is not registered for that module any more.
//! The resolver still hands the imported one out as the "parent" of the local override.
use pytest_language_server::FixtureDatabase;
use std::fs;
use std::path::PathBuf;

fn ws(files: &[(&str, &str)]) -> (tempfile::TempDir, PathBuf) {
    let dir = tempfile::tempdir().unwrap();
    let root = dir.path().canonicalize().unwrap();
    for (rel, content) in files {
        let p = root.join(rel);
        fs::create_dir_all(p.parent().unwrap()).unwrap();
        fs::write(&p, content).unwrap();
    }
    (dir, root)
}

/// pytest: `db` in test_x.py is the only fixture named `db` visible to the module
/// (helpers.py is neither a conftest nor a plugin, and the import was overwritten), so
/// `def db(db)` fails with "recursive dependency involving fixture 'db' detected".
#[test]
fn self_loop_hidden_by_a_rebound_import() {
    std::env::remove_var("VIRTUAL_ENV");
    let (_d, root) = ws(&[
        (
            "tests/helpers.py",
            "import pytest\n\n\n@pytest.fixture\ndef db():\n    return object()\n",
        ),
        (
            "tests/test_x.py",
            "import pytest\nfrom helpers import db\n\n\n@pytest.fixture\ndef db(db):\n    return db\n\n\ndef test_x(db):\n    pass\n",
        ),
    ]);
    let db = FixtureDatabase::new();
    db.scan_workspace(&root);
    let in_file = db.detect_fixture_cycles_in_file(&root.join("tests/test_x.py"));
    assert!(
        !in_file.is_empty(),
        "db(db) in test_x.py has no parent (the import is rebound by the def): the \
         recursive dependency must be reported, got none"
    );
}

/// Same root cause, scope verdict: the parent pytest selects is the conftest's
/// function-scoped `db`; the tool compares against the rebound import (session-scoped).
#[test]
fn scope_verdict_uses_the_rebound_import_instead_of_the_conftest_parent() {
    std::env::remove_var("VIRTUAL_ENV");
    let (_d, root) = ws(&[
        (
            "tests/conftest.py",
            "import pytest\n\n\n@pytest.fixture\ndef db():\n    return object()\n",
        ),
        (
            "tests/helpers.py",
            "import pytest\n\n\n@pytest.fixture(scope=\"session\")\ndef db():\n    return object()\n",
        ),
        (
            "tests/test_x.py",
            "import pytest\nfrom helpers import db\n\n\n@pytest.fixture(scope=\"session\")\ndef db(db):\n    return db\n\n\ndef test_x(db):\n    pass\n",
        ),
    ]);
    let db = FixtureDatabase::new();
    db.scan_workspace(&root);
    let mismatches = db.detect_scope_mismatches_in_file(&root.join("tests/test_x.py"));
    assert_eq!(
        mismatches.len(),
        1,
        "session-scoped db(db) in test_x.py gets the function-scoped db of tests/conftest.py: \
         ScopeMismatch expected, got {:?}",
        mismatches
            .iter()
            .map(|m| (m.dependency.file_path.clone(), m.dependency.scope))
            .collect::<Vec<_>>()
    );
}
