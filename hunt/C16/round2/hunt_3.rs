//! C16 hunt 3: "earlier same-named definitions in the file are dead" (resolver.rs:262-276)
//! is false when the two definitions live in different namespaces: a test class overriding
//! a module-level fixture, or two functions carrying the same `name=`. The override's
//! self-named parameter then finds no parent in its own file and, with no conftest
//! definition, is reported as a self-cycle (or is compared against the wrong scope).
use pytest_language_server::FixtureDatabase;
use std::fs;
use std::path::PathBuf;

fn ws(files: &[(&str, &str)]) -> (tempfile::TempDir, PathBuf) {
    let dir = tempfile::tempdir().unwrap();
    let root = dir.path().canonicalize().unwrap();
    for (rel, content) in files {
        let p = root.join(rel);
        fs::create_dir_all(p.parent().unwrap()).unwrap();
        fs::write(&p, content).unwrap();
    }
    (dir, root)
}

fn cycles(db: &FixtureDatabase) -> Vec<String> {
    db.detect_fixture_cycles()
        .iter()
        .map(|c| format!("{} @ line {}", c.cycle_path.join(" -> "), c.fixture.line))
        .collect()
}

/// pytest docs, "Override a fixture on a test module/class level": the class-level
/// `username(self, username)` receives the module-level `username`.
#[test]
fn class_level_override_of_module_level_fixture_is_not_a_cycle() {
    std::env::remove_var("VIRTUAL_ENV");
    let (_d, root) = ws(&[(
        "tests/test_user.py",
        r#"import pytest


@pytest.fixture
def username():
    return "user"


class TestAdmin:
    @pytest.fixture
    def username(self, username):
        return "admin-" + username

    def test_name(self, username):
        assert username == "admin-user"
"#,
    )]);
    let db = FixtureDatabase::new();
    db.scan_workspace(&root);
    let found = cycles(&db);
    assert!(found.is_empty(), "false cycle on a class-level override: {:?}", found);
}

/// Same file, no classes: two module attributes registered under one fixture name.
/// pytest registers both (`client`, then `z_client`, in dir() order); `z_client` is the
/// last one and its `client` parameter is the plain `client` above it.
#[test]
fn name_alias_override_in_the_same_module_is_not_a_cycle() {
    std::env::remove_var("VIRTUAL_ENV");
    let (_d, root) = ws(&[(
        "conftest.py",
        r#"import pytest


@pytest.fixture
def client():
    return object()


@pytest.fixture(name="client")
def z_client(client):
    return client
"#,
    )]);
    let db = FixtureDatabase::new();
    db.scan_workspace(&root);
    let found = cycles(&db);
    assert!(found.is_empty(), "false cycle on a name= override: {:?}", found);
}

/// Scope verdict of the same pattern: the parent of the class-scoped override is the
/// module-scoped fixture of the same file (fine), not the function-scoped one of conftest.
#[test]
fn class_level_override_is_compared_with_its_real_parent_scope() {
    std::env::remove_var("VIRTUAL_ENV");
    let (_d, root) = ws(&[
        (
            "tests/conftest.py",
            "import pytest\n\n\n@pytest.fixture\ndef username():\n    return 'x'\n",
        ),
        (
            "tests/test_user.py",
            r#"import pytest


@pytest.fixture(scope="module")
def username():
    return "user"


class TestAdmin:
    @pytest.fixture(scope="class")
    def username(self, username):
        return "admin-" + username

    def test_name(self, username):
        pass
"#,
        ),
    ]);
    let db = FixtureDatabase::new();
    db.scan_workspace(&root);
    let mismatches = db.detect_scope_mismatches_in_file(&root.join("tests/test_user.py"));
    assert!(
        mismatches.is_empty(),
        "false scope mismatch: {:?}",
        mismatches
            .iter()
            .map(|m| format!(
                "{}:{} ({:?}) -> {}:{} ({:?})",
                m.fixture.name,
                m.fixture.line,
                m.fixture.scope,
                m.dependency.file_path.display(),
                m.dependency.line,
                m.dependency.scope
            ))
            .collect::<Vec<_>>()
    );
}
