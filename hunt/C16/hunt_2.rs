//! C16 hunt 2: assignment-style fixtures (`name = pytest.fixture(scope=...)(func)`) are
//! indexed with scope=function and no dependencies, whatever the decorator call says and
//! whatever the wrapped function requests.
use pytest_language_server::FixtureDatabase;
use std::fs;

#[test]
fn assignment_style_fixture_scope_is_read() {
    let dir = tempfile::tempdir().unwrap();
    let root = dir.path().canonicalize().unwrap();
    let conftest = root.join("conftest.py");
    let content = r#"
import pytest

def _make_engine():
    return object()

engine = pytest.fixture(scope="session")(_make_engine)

@pytest.fixture(scope="session")
def connection(engine):
    return engine
"#;
    fs::write(&conftest, content).unwrap();
    let db = FixtureDatabase::new();
    db.analyze_file(conftest.clone(), content);

    let mism = db.detect_scope_mismatches_in_file(&conftest);
    let shown: Vec<String> = mism
        .iter()
        .map(|m| format!("{}({:?}) -> {}({:?})", m.fixture.name, m.fixture.scope, m.dependency.name, m.dependency.scope))
        .collect();
    assert!(
        mism.is_empty(),
        "engine is session-scoped, so session-scoped connection may depend on it; got: {:?}",
        shown
    );
}

#[test]
fn assignment_style_fixture_narrow_scope_is_flagged_and_cycle_found() {
    let dir = tempfile::tempdir().unwrap();
    let root = dir.path().canonicalize().unwrap();
    let conftest = root.join("conftest.py");
    // a -> b -> a is a real recursive dependency in pytest: b requests a through _b's signature.
    let content = r#"
import pytest

@pytest.fixture
def a(b):
    return b

def _b(a):
    return a

b = pytest.fixture()(_b)
"#;
    fs::write(&conftest, content).unwrap();
    let db = FixtureDatabase::new();
    db.analyze_file(conftest.clone(), content);

    let cycles = db.detect_fixture_cycles();
    assert!(
        !cycles.is_empty(),
        "a -> b -> a is a closed dependency chain (b = pytest.fixture()(_b), _b(a)), but no cycle was reported"
    );
}
