//! C16 hunt 3: detect_scope_mismatches_in_file looks at only ONE definition per fixture
//! name per file (`definitions.iter().find(|d| d.file_path == file_path)`), so when a file
//! defines the same fixture name more than once (one per test class - a very common
//! layout), only the first one is ever checked.
use pytest_language_server::FixtureDatabase;
use std::fs;

#[test]
fn every_definition_of_a_name_in_the_file_is_checked() {
    let dir = tempfile::tempdir().unwrap();
    let root = dir.path().canonicalize().unwrap();
    let conftest = root.join("conftest.py");
    let conftest_content = r#"
import pytest

@pytest.fixture
def workdir():
    return "/tmp/x"
"#;
    fs::write(&conftest, conftest_content).unwrap();

    let test_file = root.join("test_res.py");
    let test_content = r#"
import pytest

class TestFast:
    @pytest.fixture
    def resource(self, workdir):          # function -> function : fine
        return workdir

    def test_a(self, resource):
        pass

class TestShared:
    @pytest.fixture(scope="class")
    def resource(self, workdir):          # class -> function : ScopeMismatch in pytest
        return workdir

    def test_b(self, resource):
        pass
"#;
    fs::write(&test_file, test_content).unwrap();

    let db = FixtureDatabase::new();
    db.analyze_file(conftest.clone(), conftest_content);
    db.analyze_file(test_file.clone(), test_content);

    let mism = db.detect_scope_mismatches_in_file(&test_file);
    let shown: Vec<String> = mism
        .iter()
        .map(|m| format!("{}@{}({:?}) -> {}({:?})", m.fixture.name, m.fixture.line, m.fixture.scope, m.dependency.name, m.dependency.scope))
        .collect();
    assert_eq!(
        mism.len(),
        1,
        "expected exactly one warning, on TestShared.resource (class scope) -> workdir (function scope); got {:?}",
        shown
    );
    assert_eq!(mism[0].fixture.line, 14);
}
