//! C16 hunt 4: dependency resolution is blind to classes. A fixture defined inside a test
//! class is only visible to that class in pytest, but "same file, last definition wins"
//! makes it the resolution target of every same-named request in the file - including
//! requests made by fixtures of other classes. Verdicts then depend on an unrelated
//! same-named definition elsewhere in the file.
use pytest_language_server::FixtureDatabase;
use std::fs;

#[test]
fn unrelated_class_fixture_does_not_create_scope_mismatch() {
    let dir = tempfile::tempdir().unwrap();
    let root = dir.path().canonicalize().unwrap();
    let test_file = root.join("test_cls.py");
    let content = r#"
import pytest

class TestA:
    @pytest.fixture(scope="class")
    def helper(self):
        return 1

    @pytest.fixture(scope="class")
    def service(self, helper):      # resolves to TestA.helper (class scope): fine
        return helper

    def test_a(self, service):
        pass

class TestB:
    @pytest.fixture
    def helper(self):               # unrelated, function scope, visible in TestB only
        return 2

    def test_b(self, helper):
        pass
"#;
    fs::write(&test_file, content).unwrap();
    let db = FixtureDatabase::new();
    db.analyze_file(test_file.clone(), content);

    let mism = db.detect_scope_mismatches_in_file(&test_file);
    let shown: Vec<String> = mism
        .iter()
        .map(|m| format!("{}@{}({:?}) -> {}@{}({:?})", m.fixture.name, m.fixture.line, m.fixture.scope, m.dependency.name, m.dependency.line, m.dependency.scope))
        .collect();
    assert!(
        mism.is_empty(),
        "TestA.service depends on TestA.helper (class scope); TestB.helper is unrelated. got {:?}",
        shown
    );
}

#[test]
fn unrelated_class_fixture_does_not_create_cycle() {
    let dir = tempfile::tempdir().unwrap();
    let root = dir.path().canonicalize().unwrap();
    let conftest = root.join("conftest.py");
    let conftest_content = r#"
import pytest

@pytest.fixture
def a():
    return 0
"#;
    fs::write(&conftest, conftest_content).unwrap();
    let test_file = root.join("test_cls.py");
    // pytest: TestA.a -> TestA.b (no deps).  TestB.b -> a == conftest a (TestA.a is not
    // visible from TestB).  No closed chain anywhere; `pytest` passes both tests.
    let content = r#"
import pytest

class TestA:
    @pytest.fixture
    def a(self, b):
        return b

    @pytest.fixture
    def b(self):
        return 1

    def test_a(self, a):
        pass

class TestB:
    @pytest.fixture
    def b(self, a):
        return a

    def test_b(self, b):
        pass
"#;
    fs::write(&test_file, content).unwrap();
    let db = FixtureDatabase::new();
    db.analyze_file(conftest.clone(), conftest_content);
    db.analyze_file(test_file.clone(), content);

    let cycles = db.detect_fixture_cycles();
    let shown: Vec<String> = cycles
        .iter()
        .map(|c| format!("{} (on {}:{})", c.cycle_path.join(" -> "), c.fixture.file_path.file_name().unwrap().to_string_lossy(), c.fixture.line))
        .collect();
    assert!(cycles.is_empty(), "no closed dependency chain exists, got {:?}", shown);
}
