//! C16 hunt 1: parameters that carry a default value are not fixture requests in pytest
//! (`_pytest.compat.getfuncargnames` drops them), yet they are recorded as dependencies.
//! => false scope-mismatch warning and false circular-dependency error.
use pytest_language_server::FixtureDatabase;
use std::fs;

#[test]
fn default_valued_parameter_is_not_a_dependency_scope() {
    let dir = tempfile::tempdir().unwrap();
    let root = dir.path().canonicalize().unwrap();
    let conftest = root.join("conftest.py");
    let content = r#"
import pytest

@pytest.fixture
def retries():
    return 3

# `retries=5` is an ordinary default-valued argument: pytest never injects a fixture here.
@pytest.fixture(scope="session")
def client(retries=5):
    return retries
"#;
    fs::write(&conftest, content).unwrap();
    let db = FixtureDatabase::new();
    db.analyze_file(conftest.clone(), content);

    let mism = db.detect_scope_mismatches_in_file(&conftest);
    let shown: Vec<String> = mism
        .iter()
        .map(|m| format!("{}({:?}) -> {}({:?})", m.fixture.name, m.fixture.scope, m.dependency.name, m.dependency.scope))
        .collect();
    assert!(
        mism.is_empty(),
        "pytest runs this conftest without ScopeMismatch (client does not request retries), but got warnings: {:?}",
        shown
    );
}

#[test]
fn default_valued_parameter_is_not_a_dependency_cycle() {
    let dir = tempfile::tempdir().unwrap();
    let root = dir.path().canonicalize().unwrap();
    let conftest = root.join("conftest.py");
    let content = r#"
import pytest

@pytest.fixture
def config(*, overrides=None):
    return overrides or {}

@pytest.fixture
def overrides(config):
    return dict(config)
"#;
    fs::write(&conftest, content).unwrap();
    let db = FixtureDatabase::new();
    db.analyze_file(conftest.clone(), content);

    let cycles = db.detect_fixture_cycles();
    let shown: Vec<String> = cycles.iter().map(|c| c.cycle_path.join(" -> ")).collect();
    assert!(
        cycles.is_empty(),
        "no dependency chain is closed (config has no fixture dependency), but got: {:?}",
        shown
    );
}
