"""Oracle for the import-graph fuzz: real Python import semantics, fake `pytest` module.

usage: oracle.py ROOT   (reads ROOT/manifest.txt, prints TSV lines)
manifest lines:
  conftest <dotted module name> <relative dir ('.' for root)>
  test <dotted module name> <relative dir> <relative path>
  name <fixture name>
"""
import importlib
import os
import sys
import types

root = os.path.realpath(sys.argv[1])

fake = types.ModuleType("pytest")


def fixture(*args, **kw):
    def deco(f):
        f._fx_name = kw.get("name")
        f._is_fx = True
        return f

    if len(args) == 1 and callable(args[0]) and not kw:
        return deco(args[0])
    return deco


fake.fixture = fixture
sys.modules["pytest"] = fake
sys.path.insert(0, root)
sys.dont_write_bytecode = True

conftests = []
tests = []
names = []
for line in open(os.path.join(root, "manifest.txt")):
    parts = line.split()
    if not parts:
        continue
    if parts[0] == "conftest":
        conftests.append((parts[1], parts[2]))
    elif parts[0] == "test":
        tests.append((parts[1], parts[2], parts[3]))
    elif parts[0] == "name":
        names.append(parts[1])

plugins = []


def consider(mod):
    spec = getattr(mod, "pytest_plugins", [])
    if isinstance(spec, str):
        spec = [spec]
    for name in spec:
        m = importlib.import_module(name)
        if m not in plugins:
            plugins.append(m)
            consider(m)


def fixtures_of(mod):
    out = {}
    for attr in sorted(vars(mod)):
        val = vars(mod)[attr]
        if getattr(val, "_is_fx", False):
            name = val._fx_name or attr
            out[name] = (os.path.realpath(val.__code__.co_filename), val.__code__.co_firstlineno + 1)
    return out


try:
    conf_mods = []
    for modname, reldir in conftests:  # root first
        m = importlib.import_module(modname)
        conf_mods.append((m, reldir))
        if reldir == ".":
            consider(m)
    test_mods = []
    for modname, reldir, relpath in tests:
        test_mods.append((importlib.import_module(modname), reldir, relpath))
except Exception as e:  # illegal project
    print("ILLEGAL\t%s: %s" % (type(e).__name__, e))
    sys.exit(0)


def is_ancestor(conf_dir, test_dir):
    if conf_dir == ".":
        return True
    return test_dir == conf_dir or test_dir.startswith(conf_dir + "/")


for tmod, tdir, trel in test_mods:
    chain = [fixtures_of(tmod)]
    confs = [(m, d) for m, d in conf_mods if is_ancestor(d, tdir)]
    confs.sort(key=lambda md: -len(md[1].split("/")) if md[1] != "." else 0)
    for m, d in confs:
        chain.append(fixtures_of(m))
    plug = [fixtures_of(p) for p in plugins]
    for n in names:
        res = None
        for ns in chain:
            if n in ns:
                res = ns[n]
                break
        if res is None:
            cands = {ns[n] for ns in plug if n in ns}
            if len(cands) == 1:
                res = cands.pop()
            elif len(cands) > 1:
                print("%s\t%s\tAMBIG" % (trel, n))
                continue
        if res is None:
            print("%s\t%s\tNONE" % (trel, n))
        else:
            print("%s\t%s\t%s\t%d" % (trel, n, res[0], res[1]))
