//! C14 hunt 3: a pytest11 entry point that names a *package* (`myproj = myproj`) makes every
//! .py file of the package directory tree (3 levels, only `test_*.py` excepted) a plugin
//! module: the package's own `tests/conftest.py`, its `*_test.py` files and helper modules
//! that the plugin never imports.  Their fixtures become available in every file of the
//! workspace (and are offered/resolved there), while pytest only registers
//! `myproj/__init__.py` and what it imports.
use pytest_language_server::FixtureDatabase;
use std::fs;
use std::path::Path;

fn w(root: &Path, rel: &str, content: &str) {
    let p = root.join(rel);
    fs::create_dir_all(p.parent().unwrap()).unwrap();
    fs::write(p, content).unwrap();
}

fn fixture(name: &str) -> String {
    format!("import pytest\n\n\n@pytest.fixture\ndef {}():\n    return 1\n", name)
}

#[test]
fn package_entry_point_turns_conftest_and_unimported_modules_into_plugins() {
    let t = tempfile::tempdir().unwrap();
    let root = t.path().canonicalize().unwrap();
    // the project is installed editable in its own venv (flat layout)
    let sp = root.join(".venv/lib/python3.12/site-packages");
    w(&sp, "myproj-0.1.0.dist-info/entry_points.txt", "[pytest11]\nmyproj = myproj\n");
    w(
        &sp,
        "myproj-0.1.0.dist-info/direct_url.json",
        &format!("{{\"url\": \"file://{}\", \"dir_info\": {{\"editable\": true}}}}", root.display()),
    );
    w(&sp, "__editable__.myproj-0.1.0.pth", &format!("{}\n", root.display()));

    w(&root, "myproj/__init__.py", &fixture("plug_fix")); // the plugin
    w(&root, "myproj/internal.py", &fixture("never_imported_fix")); // not imported by the plugin
    w(&root, "myproj/tests/__init__.py", "");
    w(&root, "myproj/tests/conftest.py", &fixture("pkg_conftest_fix")); // local to myproj/tests/
    w(&root, "myproj/tests/test_in.py", "def test_in(pkg_conftest_fix, plug_fix):\n    pass\n");
    // an unrelated test directory of the same workspace
    w(&root, "other/test_out.py", "def test_out(pkg_conftest_fix, never_imported_fix, plug_fix):\n    pass\n");

    let db = FixtureDatabase::new();
    db.scan_workspace(&root);
    let inside = root.join("myproj/tests/test_in.py");
    let outside = root.join("other/test_out.py");

    // controls
    assert!(db.find_fixture_definition(&inside, 0, 12).is_some(), "conftest fixture below its conftest");
    assert!(db.find_fixture_definition(&outside, 0, 54).is_some(), "plug_fix is a plugin fixture");

    let names: Vec<String> = db.get_available_fixtures(&outside).into_iter().map(|d| d.name).collect();
    let goto_conftest = db.find_fixture_definition(&outside, 0, 13).map(|d| (d.file_path, d.is_plugin));
    let goto_internal = db.find_fixture_definition(&outside, 0, 31).map(|d| (d.file_path, d.is_plugin));
    assert!(
        names == vec!["plug_fix".to_string()] && goto_conftest.is_none() && goto_internal.is_none(),
        "other/test_out.py must only see plug_fix; completion list = {:?}; \
         pkg_conftest_fix -> {:?}; never_imported_fix -> {:?}",
        names,
        goto_conftest,
        goto_internal
    );
}
