//! C14 hunt 2: a directory (or file) called `env`, `venv` or `.venv` in the workspace root
//! that is not a virtual environment ends the search for one: `$VIRTUAL_ENV` is never
//! consulted, so neither pytest's built-ins nor any installed plugin is found.
//!
//! (one test per file/process: it sets an environment variable)
use pytest_language_server::FixtureDatabase;
use std::fs;
use std::path::Path;

fn w(root: &Path, rel: &str, content: &str) {
    let p = root.join(rel);
    fs::create_dir_all(p.parent().unwrap()).unwrap();
    fs::write(p, content).unwrap();
}

fn names(db: &FixtureDatabase, file: &Path) -> Vec<String> {
    db.get_available_fixtures(file).into_iter().map(|d| d.name).collect()
}

#[test]
fn non_venv_directory_named_env_hides_virtual_env() {
    // the activated virtualenv lives outside the workspace (virtualenvwrapper, poetry, hatch, ...)
    let ext = tempfile::tempdir().unwrap();
    let venv = ext.path().canonicalize().unwrap().join("myvenv");
    let sp = venv.join("lib/python3.12/site-packages");
    w(&sp, "_pytest/__init__.py", "");
    w(
        &sp,
        "_pytest/tmpdir.py",
        "from .fixtures import fixture\n\n\n@fixture\ndef tmp_path():\n    return 1\n",
    );
    w(
        &sp,
        "pytest_foo.py",
        "import pytest\n\n\n@pytest.fixture\ndef foo():\n    return 1\n",
    );
    w(&sp, "pytest_foo-1.0.dist-info/entry_points.txt", "[pytest11]\nfoo = pytest_foo\n");
    std::env::set_var("VIRTUAL_ENV", &venv);

    // control: plain workspace, VIRTUAL_ENV is used
    let t0 = tempfile::tempdir().unwrap();
    let root0 = t0.path().canonicalize().unwrap();
    w(&root0, "test_a.py", "def test_a(tmp_path, foo):\n    pass\n");
    let db0 = FixtureDatabase::new();
    db0.scan_workspace(&root0);
    let control = names(&db0, &root0.join("test_a.py"));
    assert_eq!(control, vec!["foo".to_string(), "tmp_path".to_string()], "control");

    // same workspace with deployment settings kept in ./env/ (not a virtualenv)
    let t = tempfile::tempdir().unwrap();
    let root = t.path().canonicalize().unwrap();
    w(&root, "env/production.env", "DEBUG=0\n");
    w(&root, "test_a.py", "def test_a(tmp_path, foo):\n    pass\n");
    let db = FixtureDatabase::new();
    db.scan_workspace(&root);
    let got = names(&db, &root.join("test_a.py"));

    // and with a `.venv` *file* (the "path of the venv" convention of pipenv & co.)
    let t2 = tempfile::tempdir().unwrap();
    let root2 = t2.path().canonicalize().unwrap();
    w(&root2, ".venv", &format!("{}\n", venv.display()));
    w(&root2, "test_a.py", "def test_a(tmp_path, foo):\n    pass\n");
    let db2 = FixtureDatabase::new();
    db2.scan_workspace(&root2);
    let got2 = names(&db2, &root2.join("test_a.py"));

    std::env::remove_var("VIRTUAL_ENV");
    assert_eq!(
        (got.clone(), got2.clone()),
        (control.clone(), control),
        "built-in and plugin fixtures of $VIRTUAL_ENV must be found; with ./env/ dir: {:?}, with .venv file: {:?}",
        got,
        got2
    );
}
