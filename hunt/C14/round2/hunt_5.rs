//! C14 hunt 5: within one module a fixture definition always beats an import of the same
//! name, whatever their order.  In Python the later binding wins, so
//!
//!     @pytest.fixture
//!     def db(): ...              # line 5
//!     from .fixtures import db   # line 9  <- this is the `db` of the module
//!
//! (the server already honours the order between two imports - 637aaff - and between two
//! definitions - 70933dd.)  Found by the differential fuzz (hunt_fuzz.rs, `fuzz_any_order`:
//! 161 of 400 random projects disagree with CPython once statement order is free, 0 of 400
//! when imports come first).
use pytest_language_server::FixtureDatabase;
use std::fs;
use std::path::Path;

fn w(root: &Path, rel: &str, content: &str) {
    let p = root.join(rel);
    fs::create_dir_all(p.parent().unwrap()).unwrap();
    fs::write(p, content).unwrap();
}

fn fixture(name: &str) -> String {
    format!("import pytest\n\n\n@pytest.fixture\ndef {}():\n    return 1\n", name)
}

#[test]
fn later_import_rebinds_a_name_defined_earlier_in_the_conftest() {
    let t = tempfile::tempdir().unwrap();
    let root = t.path().canonicalize().unwrap();
    w(&root, "tests/__init__.py", "");
    w(&root, "tests/fixtures.py", &fixture("db"));
    w(&root, "tests/conftest.py", &format!("{}\n\nfrom .fixtures import db\n", fixture("db")));
    w(&root, "tests/test_a.py", "def test_a(db):\n    pass\n");
    let db = FixtureDatabase::new();
    db.scan_workspace(&root);
    let test = root.join("tests/test_a.py");
    let goto = db.find_fixture_definition(&test, 0, 11).map(|d| d.file_path);
    let listed: Vec<_> = db
        .get_available_fixtures(&test)
        .into_iter()
        .filter(|d| d.name == "db")
        .map(|d| d.file_path)
        .collect();
    assert_eq!(
        (goto, listed),
        (Some(root.join("tests/fixtures.py")), vec![root.join("tests/fixtures.py")]),
        "conftest.db is the function imported on the last line (tests/fixtures.py)"
    );
}

#[test]
fn later_star_import_rebinds_through_a_chain_and_in_a_test_module() {
    let t = tempfile::tempdir().unwrap();
    let root = t.path().canonicalize().unwrap();
    w(&root, "tests/__init__.py", "");
    w(&root, "tests/base.py", &fixture("db"));
    // mid defines db, then star-imports base: mid.db is base.db
    w(&root, "tests/mid.py", &format!("{}\n\nfrom .base import *\n", fixture("db")));
    w(&root, "tests/conftest.py", "from .mid import *\n");
    w(&root, "tests/test_a.py", "def test_a(db):\n    pass\n");
    // a test module that defines db and then imports another one
    w(
        &root,
        "tests/test_b.py",
        &format!("{}\n\nfrom .base import db\n\n\ndef test_b(db):\n    pass\n", fixture("db")),
    );
    let db = FixtureDatabase::new();
    db.scan_workspace(&root);
    let a = db.find_fixture_definition(&root.join("tests/test_a.py"), 0, 11).map(|d| d.file_path);
    let b = db.find_fixture_definition(&root.join("tests/test_b.py"), 11, 11).map(|d| d.file_path);
    assert_eq!(
        (a, b),
        (Some(root.join("tests/base.py")), Some(root.join("tests/base.py"))),
        "both resolve to tests/base.py in Python"
    );
}
