//! C14 hunt 4: the undeclared-fixture diagnostic has its own notion of "available here"
//! (`is_available_fixture`) that does not look at imports at all.  A fixture that the
//! conftest (or the test module itself) imports - one star-import hop is enough - is
//! available according to go-to-definition and completion, but its use in a test body without
//! declaring it is never reported, whereas the same use of a fixture defined in the
//! conftest is.
use pytest_language_server::FixtureDatabase;
use std::fs;
use std::path::Path;

fn w(root: &Path, rel: &str, content: &str) {
    let p = root.join(rel);
    fs::create_dir_all(p.parent().unwrap()).unwrap();
    fs::write(p, content).unwrap();
}

#[test]
fn undeclared_use_of_an_imported_fixture_is_not_reported() {
    let t = tempfile::tempdir().unwrap();
    let root = t.path().canonicalize().unwrap();
    w(&root, "tests/__init__.py", "");
    w(
        &root,
        "tests/fixtures.py",
        "import pytest\n\n\n@pytest.fixture\ndef imported_fix():\n    return 1\n",
    );
    w(
        &root,
        "tests/conftest.py",
        "import pytest\nfrom .fixtures import *\n\n\n@pytest.fixture\ndef local_fix():\n    return 1\n",
    );
    let test_src = "def test_a():\n    a = imported_fix\n    b = local_fix\n";
    w(&root, "tests/test_a.py", test_src);

    let db = FixtureDatabase::new();
    db.scan_workspace(&root);
    let test = root.join("tests/test_a.py");
    // analyse the test once more when everything is indexed: not a matter of scan order
    db.analyze_file(test.clone(), test_src);

    let mut available: Vec<String> = db.get_available_fixtures(&test).into_iter().map(|d| d.name).collect();
    available.sort();
    assert_eq!(available, vec!["imported_fix".to_string(), "local_fix".to_string()], "both are available");

    let mut undeclared: Vec<String> = db.get_undeclared_fixtures(&test).into_iter().map(|u| u.name).collect();
    undeclared.sort();
    assert_eq!(
        undeclared,
        vec!["imported_fix".to_string(), "local_fix".to_string()],
        "both fixtures are used in the body of test_a without being declared"
    );
}
