//! C14 hunt 1: a conftest imports a fixture explicitly by its *function* name, while the
//! fixture is registered under another name with `@pytest.fixture(name="...")`.
//!
//!     # tests/fixtures.py
//!     @pytest.fixture(name="client")
//!     def client_fixture(): ...
//!     # tests/conftest.py
//!     from .fixtures import client_fixture
//!
//! pytest registers the fixture `client` for everything below tests/ (the imported function
//! object carries its fixture marker, name included).  The very common pylint-friendly
//! spelling.  The server only compares imported attribute names with fixture names.
use pytest_language_server::FixtureDatabase;
use std::fs;
use std::path::Path;

fn w(root: &Path, rel: &str, content: &str) {
    let p = root.join(rel);
    fs::create_dir_all(p.parent().unwrap()).unwrap();
    fs::write(p, content).unwrap();
}

#[test]
fn explicit_import_of_renamed_fixture_by_function_name() {
    let t = tempfile::tempdir().unwrap();
    let root = t.path().canonicalize().unwrap();
    w(&root, "tests/__init__.py", "");
    w(
        &root,
        "tests/fixtures.py",
        "import pytest\n\n\n@pytest.fixture(name=\"client\")\ndef client_fixture():\n    return 1\n\n\n@pytest.fixture\ndef plain():\n    return 2\n",
    );
    w(&root, "tests/conftest.py", "from .fixtures import client_fixture, plain\n");
    w(&root, "tests/test_a.py", "def test_a(client, plain):\n    pass\n");

    let db = FixtureDatabase::new();
    db.scan_workspace(&root);
    let test = root.join("tests/test_a.py");

    // control: the plain fixture imported the same way is found
    let plain = db.find_fixture_definition(&test, 0, 20);
    assert_eq!(plain.map(|d| d.file_path), Some(root.join("tests/fixtures.py")));

    let names: Vec<String> = db.get_available_fixtures(&test).into_iter().map(|d| d.name).collect();
    let client = db.find_fixture_definition(&test, 0, 11);
    assert!(
        names.contains(&"client".to_string()) && client.is_some(),
        "fixture `client` (imported into tests/conftest.py as client_fixture) must be available in \
         tests/test_a.py; completion list = {:?}, go-to-definition = {:?}",
        names,
        client.map(|d| (d.file_path, d.line))
    );
}

/// Same thing when the test module imports it itself, and through a star-importing hop.
#[test]
fn renamed_fixture_imported_by_test_module_and_through_a_chain() {
    let t = tempfile::tempdir().unwrap();
    let root = t.path().canonicalize().unwrap();
    w(&root, "tests/__init__.py", "");
    w(
        &root,
        "tests/base.py",
        "import pytest\n\n\n@pytest.fixture(name=\"client\")\ndef client_fixture():\n    return 1\n",
    );
    w(&root, "tests/mid.py", "from .base import client_fixture\n");
    w(&root, "tests/conftest.py", "from .mid import *\n");
    w(&root, "tests/test_a.py", "def test_a(client):\n    pass\n");
    let db = FixtureDatabase::new();
    db.scan_workspace(&root);
    let test = root.join("tests/test_a.py");
    let client = db.find_fixture_definition(&test, 0, 11);
    assert_eq!(
        client.map(|d| d.file_path),
        Some(root.join("tests/base.py")),
        "conftest -> (star) mid -> (explicit, by function name) base: `client` must resolve to base.py"
    );
}
