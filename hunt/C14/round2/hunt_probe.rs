use pytest_language_server::FixtureDatabase;
use std::fs;
use std::path::Path;

fn w(root: &Path, rel: &str, content: &str) {
    let p = root.join(rel);
    fs::create_dir_all(p.parent().unwrap()).unwrap();
    fs::write(p, content).unwrap();
}

fn avail(db: &FixtureDatabase, file: &Path) -> Vec<String> {
    let mut v: Vec<String> = db
        .get_available_fixtures(file)
        .into_iter()
        .map(|d| {
            format!(
                "{}@{}:{}{}{}",
                d.name,
                d.file_path.file_name().unwrap().to_string_lossy(),
                d.line,
                if d.is_plugin { " P" } else { "" },
                if d.is_third_party { " T" } else { "" }
            )
        })
        .collect();
    v.sort();
    v
}

#[test]
fn probe_renamed_explicit() {
    let t = tempfile::tempdir().unwrap();
    let root = t.path().canonicalize().unwrap();
    w(&root, "tests/__init__.py", "");
    w(
        &root,
        "tests/fixtures.py",
        "import pytest\n\n@pytest.fixture(name=\"client\")\ndef client_fixture():\n    return 1\n\n@pytest.fixture\ndef plain():\n    return 2\n",
    );
    w(
        &root,
        "tests/conftest.py",
        "from .fixtures import client_fixture, plain\n",
    );
    w(&root, "tests/test_a.py", "def test_a(client, plain):\n    pass\n");
    let db = FixtureDatabase::new();
    db.scan_workspace(&root);
    let test = root.join("tests/test_a.py");
    println!("avail: {:?}", avail(&db, &test));
    println!("def client: {:?}", db.find_fixture_definition(&test, 0, 12).map(|d| d.name));
    println!("def plain: {:?}", db.find_fixture_definition(&test, 0, 20).map(|d| d.name));
}

#[test]
fn probe_entry_point_package_leak() {
    let t = tempfile::tempdir().unwrap();
    let root = t.path().canonicalize().unwrap();
    let sp = root.join(".venv/lib/python3.12/site-packages");
    fs::create_dir_all(&sp).unwrap();
    w(&sp, "myproj-0.1.0.dist-info/entry_points.txt", "[pytest11]\nmyproj = myproj\n");
    w(
        &sp,
        "myproj-0.1.0.dist-info/direct_url.json",
        &format!("{{\"url\": \"file://{}\", \"dir_info\": {{\"editable\": true}}}}", root.display()),
    );
    w(&sp, "__editable__.myproj-0.1.0.pth", &format!("{}\n", root.display()));
    w(&root, "myproj/__init__.py", "import pytest\n\n@pytest.fixture\ndef plug_fix():\n    return 1\n");
    w(&root, "myproj/internal.py", "import pytest\n\n@pytest.fixture\ndef not_exported():\n    return 1\n");
    w(&root, "myproj/tests/conftest.py", "import pytest\n\n@pytest.fixture\ndef pkg_local_conftest_fix():\n    return 1\n");
    w(&root, "myproj/tests/test_in.py", "def test_in(pkg_local_conftest_fix):\n    pass\n");
    w(&root, "other/test_out.py", "def test_out(pkg_local_conftest_fix, plug_fix):\n    pass\n");
    let db = FixtureDatabase::new();
    db.scan_workspace(&root);
    let test = root.join("other/test_out.py");
    println!("avail other: {:?}", avail(&db, &test));
}

#[test]
fn probe_local_def_then_import() {
    let t = tempfile::tempdir().unwrap();
    let root = t.path().canonicalize().unwrap();
    w(&root, "tests/__init__.py", "");
    w(&root, "tests/fixtures.py", "import pytest\n\n@pytest.fixture\ndef db():\n    return 'imported'\n");
    w(
        &root,
        "tests/conftest.py",
        "import pytest\n\n@pytest.fixture\ndef db():\n    return 'local'\n\nfrom .fixtures import db\n",
    );
    w(&root, "tests/test_a.py", "def test_a(db):\n    pass\n");
    let db = FixtureDatabase::new();
    db.scan_workspace(&root);
    let test = root.join("tests/test_a.py");
    println!("avail: {:?}", avail(&db, &test));
}

#[test]
fn probe_pytest_plugins_augassign() {
    let t = tempfile::tempdir().unwrap();
    let root = t.path().canonicalize().unwrap();
    w(&root, "plug_a.py", "import pytest\n\n@pytest.fixture\ndef fa():\n    return 1\n");
    w(&root, "plug_b.py", "import pytest\n\n@pytest.fixture\ndef fb():\n    return 1\n");
    w(&root, "conftest.py", "pytest_plugins = [\"plug_a\"]\npytest_plugins += [\"plug_b\"]\n");
    w(&root, "test_a.py", "def test_a(fa, fb):\n    pass\n");
    let db = FixtureDatabase::new();
    db.scan_workspace(&root);
    println!("avail: {:?}", avail(&db, &root.join("test_a.py")));
}

#[test]
fn probe_syntax() {
    let cases: Vec<(&str, &str)> = vec![
        ("pep701_fstring", "d = {'k': 1}\ns = f\"{d[\"k\"]}\"\n"),
        ("paren_with", "def f():\n    with (open('a') as f, open('b') as g):\n        pass\n"),
        ("match", "def f(x):\n    match x:\n        case 1:\n            pass\n        case _:\n            pass\n"),
        ("pep695_func", "def f[T](x: T) -> T:\n    return x\n"),
        ("pep695_type", "type X = int\n"),
        ("pep696_default", "def f[T = int](x: T) -> T:\n    return x\n"),
        ("except_star", "try:\n    pass\nexcept* ValueError:\n    pass\n"),
        ("walrus", "if (n := 3) > 2:\n    pass\n"),
        ("posonly", "def f(a, /, b, *, c):\n    pass\n"),
        ("fstring_eq", "x = 1\ns = f'{x=}'\n"),
        ("fstring_nested_fmt", "x = 1\nw = 3\ns = f'{x:{w}}'\n"),
        ("fstring_multiline_expr", "x = 1\ns = f'{\n x\n}'\n"),
        ("fstring_backslash", "l = ['a']\ns = f\"{'\\n'.join(l)}\"\n"),
        ("star_index", "def f(a, *b):\n    return a[*b]\n"),
        ("star_annot", "def f(*args: *tuple[int, ...]):\n    pass\n"),
        ("unicode_ident", "def ¬f():\n    pass\n"),
        ("bom", "\u{feff}import pytest\n"),
        ("tabs_formfeed", "import pytest\n\x0c\ndef f():\n    pass\n"),
        ("line_cont", "from .fixtures \\\n    import *\n"),
        ("decorator_expr", "import pytest\nfs = [pytest.fixture]\n@fs[0]\ndef a():\n    pass\n"),
        ("async_gen", "async def f():\n    yield 1\n"),
        ("global_type_comment", "x = []  # type: list[int]\n"),
        ("lambda_default", "f = lambda x=1, /, y=2: x\n"),
        ("print_chevron_py2", "print >>f, 'x'\n"),
        ("return_star", "def f(x):\n    return 1, *x\n"),
        ("dict_union", "a = {} | {}\n"),
        ("nonlocal", "def f():\n    x = 1\n    def g():\n        nonlocal x\n"),
        ("await_in_comp", "async def f(xs):\n    return [await x for x in xs]\n"),
        ("num_underscore", "x = 1_000\n"),
        ("complex_slices", "x = a[1:2, ::3]\n"),
        ("ellipsis_stub", "def f(): ...\n"),
        ("null_byte_free_crlf", "import pytest\r\n\r\n@pytest.fixture\r\ndef a():\r\n    pass\r\n"),
        ("cr_only", "import pytest\r\r@pytest.fixture\rdef a():\r    pass\r"),
        ("with_paren_single", "def f():\n    with (open('a')) as f:\n        pass\n"),
        ("with_paren_trailing", "def f():\n    with (\n        open('a') as f,\n        open('b') as g,\n    ):\n        pass\n"),
    ];
    for (name, src) in cases {
        let t = tempfile::tempdir().unwrap();
        let root = t.path().canonicalize().unwrap();
        let content = format!("{}\nimport pytest\n\n@pytest.fixture\ndef probe_fix():\n    return 1\n", src);
        let content = if name == "bom" { format!("\u{feff}import pytest\n\n@pytest.fixture\ndef probe_fix():\n    return 1\n") } else { content };
        w(&root, "conftest.py", &content);
        let db = FixtureDatabase::new();
        db.scan_workspace(&root);
        println!("{:28} parsed_ok={}", name, db.definitions.contains_key("probe_fix"));
    }
}

fn mk_venv(venv: &Path) -> std::path::PathBuf {
    let sp = venv.join("lib/python3.12/site-packages");
    fs::create_dir_all(&sp).unwrap();
    w(&sp, "_pytest/__init__.py", "");
    w(&sp, "_pytest/tmpdir.py", "from .fixtures import fixture\n\n@fixture\ndef tmp_path():\n    return 1\n");
    sp
}

#[test]
fn probe_env_dir_shadows_virtual_env() {
    let t = tempfile::tempdir().unwrap();
    let root = t.path().canonicalize().unwrap();
    let ext = tempfile::tempdir().unwrap();
    let ext_root = ext.path().canonicalize().unwrap();
    mk_venv(&ext_root.join("myvenv"));
    std::env::set_var("VIRTUAL_ENV", ext_root.join("myvenv"));
    w(&root, "env/prod.env", "A=1\n");
    w(&root, "test_a.py", "def test_a(tmp_path):\n    pass\n");
    let db = FixtureDatabase::new();
    db.scan_workspace(&root);
    println!("with env/ dir: {:?}", avail(&db, &root.join("test_a.py")));
    fs::remove_dir_all(root.join("env")).unwrap();
    let db = FixtureDatabase::new();
    db.scan_workspace(&root);
    println!("without env/ dir: {:?}", avail(&db, &root.join("test_a.py")));
    std::env::remove_var("VIRTUAL_ENV");
}

#[test]
fn probe_undeclared_imported() {
    let t = tempfile::tempdir().unwrap();
    let root = t.path().canonicalize().unwrap();
    w(&root, "tests/__init__.py", "");
    w(&root, "tests/fixtures.py", "import pytest\n\n@pytest.fixture\ndef imported_fix():\n    return 1\n");
    w(&root, "tests/conftest.py", "import pytest\nfrom .fixtures import *\n\n@pytest.fixture\ndef local_fix():\n    return 1\n");
    w(&root, "tests/test_a.py", "def test_a():\n    a = imported_fix\n    b = local_fix\n");
    let db = FixtureDatabase::new();
    db.scan_workspace(&root);
    // re-analyse the test after everything is indexed (scan order independence)
    let test = root.join("tests/test_a.py");
    db.analyze_file(test.clone(), &fs::read_to_string(&test).unwrap());
    println!("avail: {:?}", avail(&db, &test));
    println!("undeclared: {:?}", db.get_undeclared_fixtures(&test).iter().map(|u| u.name.clone()).collect::<Vec<_>>());
}

#[test]
fn probe_pip_vcs_editable_in_venv_src() {
    let t = tempfile::tempdir().unwrap();
    let root = t.path().canonicalize().unwrap();
    let sp = mk_venv(&root.join(".venv"));
    let src = root.join(".venv/src/extplug");
    w(&src, "extplug/__init__.py", "");
    w(&src, "extplug/plugin.py", "import pytest\n\n@pytest.fixture\ndef ext_fix():\n    return 1\n");
    w(&sp, "extplug-0.1.0.dist-info/entry_points.txt", "[pytest11]\nextplug = extplug.plugin\n");
    w(&sp, "extplug-0.1.0.dist-info/direct_url.json", "{\"url\": \"git+https://x/y\", \"dir_info\": {\"editable\": true}}");
    w(&sp, "__editable__.extplug-0.1.0.pth", &format!("{}\n", src.display()));
    w(&root, "test_a.py", "def test_a(ext_fix, tmp_path):\n    pass\n");
    let db = FixtureDatabase::new();
    db.scan_workspace(&root);
    println!("avail: {:?}", avail(&db, &root.join("test_a.py")));
}

fn fixture_src(name: &str) -> String {
    format!("import pytest\n\n@pytest.fixture\ndef {}():\n    return 1\n", name)
}

#[test]
fn probe_layouts() {
    let t = tempfile::tempdir().unwrap();
    let root = t.path().canonicalize().unwrap();
    let ext = tempfile::tempdir().unwrap();
    let ext_root = ext.path().canonicalize().unwrap();
    let sp = mk_venv(&root.join(".venv"));
    // L1 dist-info module
    w(&sp, "plug_mod.py", &fixture_src("l1_mod"));
    w(&sp, "plug_mod-1.0.dist-info/entry_points.txt", "[console_scripts]\nx = y:z\n\n[pytest11]\nplug_mod = plug_mod\n");
    // L2 egg-info dir, package target with attr
    w(&sp, "plug_egg/__init__.py", "");
    w(&sp, "plug_egg/plugin.py", &fixture_src("l2_egg"));
    w(&sp, "plug_egg-1.0-py3.12.egg-info/entry_points.txt", "[pytest11]\r\nplug_egg = plug_egg.plugin:Plugin\r\n");
    // L3 editable inside workspace, src layout, dashed name, old-style pth
    w(&root, "src/in_ws/__init__.py", "");
    w(&root, "src/in_ws/plugin.py", &format!("{}from .more import *\n", fixture_src("l3_in")));
    w(&root, "src/in_ws/more.py", &fixture_src("l3_more"));
    w(&sp, "in_ws-0.1.dist-info/entry_points.txt", "[pytest11]\nin_ws = in_ws.plugin\n");
    w(&sp, "in_ws-0.1.dist-info/direct_url.json", "{\"url\": \"file:///x\", \"dir_info\": {\"editable\": true}}");
    w(&sp, "_in_ws.pth", &format!("{}\n", root.join("src").display()));
    // L4 editable outside, dashed & capitalised name
    w(&ext_root, "Out-Side/out_side/__init__.py", "");
    w(&ext_root, "Out-Side/out_side/plugin.py", &format!("{}from .more import *\nfrom .expl import l4_expl\n", fixture_src("l4_out")));
    w(&ext_root, "Out-Side/out_side/more.py", &fixture_src("l4_more"));
    w(&ext_root, "Out-Side/out_side/expl.py", &fixture_src("l4_expl"));
    w(&sp, "Out_Side-2.0.dist-info/entry_points.txt", "[pytest11]\nout = out_side.plugin\n");
    w(&sp, "Out_Side-2.0.dist-info/direct_url.json", "{\"url\": \"file:///x\", \"dir_info\": {\"editable\": true}}");
    w(&sp, "__editable__.Out_Side-2.0.pth", &format!("{}\n", ext_root.join("Out-Side").display()));
    // L5 name with dot and dash, pth by raw name
    w(&ext_root, "ns/ns_pkg/plugin.py", &fixture_src("l5_ns"));
    w(&sp, "ns.pkg-plug-3.dist-info/entry_points.txt", "[pytest11]\nns = ns_pkg.plugin\n");
    w(&sp, "ns.pkg-plug-3.dist-info/direct_url.json", "{\"url\": \"file:///x\", \"dir_info\": {\"editable\": true}}");
    w(&sp, "ns.pkg-plug.pth", &format!("# comment\nimport os\n{}\n", ext_root.join("ns").display()));
    w(&root, "tests/test_a.py", "def test_a():\n    pass\n");
    let db = FixtureDatabase::new();
    db.scan_workspace(&root);
    println!("avail: {:#?}", avail(&db, &root.join("tests/test_a.py")));
}

#[test]
fn probe_plugin_edit_history() {
    let t = tempfile::tempdir().unwrap();
    let root = t.path().canonicalize().unwrap();
    let sp = mk_venv(&root.join(".venv"));
    w(&root, "src/in_ws/__init__.py", "");
    w(&root, "src/in_ws/plugin.py", &fixture_src("p_base"));
    w(&root, "src/in_ws/more.py", &fixture_src("p_more"));
    w(&sp, "in_ws-0.1.dist-info/entry_points.txt", "[pytest11]\nin_ws = in_ws.plugin\n");
    w(&sp, "in_ws-0.1.dist-info/direct_url.json", "{\"url\": \"file:///x\", \"dir_info\": {\"editable\": true}}");
    w(&sp, "_in_ws.pth", &format!("{}\n", root.join("src").display()));
    w(&root, "tests/test_a.py", "def test_a():\n    x = p_more\n");
    let db = FixtureDatabase::new();
    db.scan_workspace(&root);
    let test = root.join("tests/test_a.py");
    println!("before: {:?}", avail(&db, &test));
    let plugin = root.join("src/in_ws/plugin.py");
    db.document_opened(&plugin);
    db.analyze_file(plugin.clone(), &format!("{}from .more import *\n", fixture_src("p_base")));
    println!("after edit: {:?}", avail(&db, &test));
    db.analyze_file(test.clone(), "def test_a():\n    x = p_more\n    y = p_base\n");
    println!("undeclared: {:?}", db.get_undeclared_fixtures(&test).iter().map(|u| u.name.clone()).collect::<Vec<_>>());
}

#[test]
fn probe_sibling_first_absolute_import() {
    let t = tempfile::tempdir().unwrap();
    let root = t.path().canonicalize().unwrap();
    w(&root, "conftest.py", "");
    w(&root, "helpers.py", &fixture_src("x"));
    w(&root, "pa/__init__.py", "");
    w(&root, "pa/helpers.py", &fixture_src("x"));
    w(&root, "pa/conftest.py", "from helpers import x\n");
    w(&root, "pa/test_a.py", "def test_a(x):\n    pass\n");
    let db = FixtureDatabase::new();
    db.scan_workspace(&root);
    let d = db.find_fixture_definition(&root.join("pa/test_a.py"), 0, 11).unwrap();
    println!("x resolves to {:?} (Python: {:?})", d.file_path.strip_prefix(&root).unwrap(), "helpers.py");
}

#[test]
fn probe_pytest_plugins_reassigned_dynamically() {
    let t = tempfile::tempdir().unwrap();
    let root = t.path().canonicalize().unwrap();
    w(&root, "plug_a.py", &fixture_src("fa"));
    w(&root, "plug_b.py", &fixture_src("fb"));
    w(&root, "conftest.py", "import os\npytest_plugins = [\"plug_a\"]\nif os.environ.get(\"X\"):\n    pytest_plugins = pytest_plugins + [\"plug_b\"]\n");
    w(&root, "test_a.py", "def test_a(fa, fb):\n    pass\n");
    let db = FixtureDatabase::new();
    db.scan_workspace(&root);
    println!("avail: {:?}", avail(&db, &root.join("test_a.py")));
}
