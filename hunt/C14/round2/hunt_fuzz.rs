//! Differential fuzz: random import graphs, real Python as the oracle for namespaces.
use pytest_language_server::FixtureDatabase;
use std::collections::{BTreeMap, BTreeSet};
use std::fs;
use std::path::{Path, PathBuf};
use std::process::Command;

const PY: &str = "/root/.pyenv/versions/3.12.1/bin/python";

struct Rng(u64);
impl Rng {
    fn next(&mut self) -> u64 {
        self.0 ^= self.0 << 13;
        self.0 ^= self.0 >> 7;
        self.0 ^= self.0 << 17;
        self.0
    }
    fn below(&mut self, n: usize) -> usize {
        (self.next() % n as u64) as usize
    }
    fn chance(&mut self, pct: usize) -> bool {
        self.below(100) < pct
    }
}

#[derive(Clone)]
struct Module {
    dotted: &'static str,
    is_pkg: bool,
    kind: u8, // 0 helper, 1 plugin-only helper, 2 conftest, 3 test
}

fn modules() -> Vec<Module> {
    let m = |dotted, is_pkg, kind| Module { dotted, is_pkg, kind };
    vec![
        m("lib.m1", false, 0),
        m("lib.inner.m2", false, 0),
        m("lib.inner.m3", false, 0),
        m("pa.h4", false, 0),
        m("pa.sub.h5", false, 0),
        m("pb.h6", false, 0),
        m("kit", true, 0),
        m("kit.sub", true, 0),
        m("m0", false, 1),
        m("lib.m9", false, 1),
        m("conftest", false, 2),
        m("pa.conftest", false, 2),
        m("pa.sub.conftest", false, 2),
        m("pb.conftest", false, 2),
        m("test_r", false, 3),
        m("pa.test_p", false, 3),
        m("pa.sub.test_t", false, 3),
        m("pb.test_u", false, 3),
    ]
}

fn rel_path(m: &Module) -> String {
    let p = m.dotted.replace('.', "/");
    if m.is_pkg {
        format!("{}/__init__.py", p)
    } else {
        format!("{}.py", p)
    }
}

fn package_of(m: &Module) -> Vec<&'static str> {
    let parts: Vec<&'static str> = m.dotted.split('.').collect();
    if m.is_pkg {
        parts
    } else {
        parts[..parts.len() - 1].to_vec()
    }
}

/// Spelling of the module part of `from X import` in `from_mod` for `target`.
fn spell(rng: &mut Rng, from_mod: &Module, target: &Module, allow_rel: bool) -> String {
    let pm = package_of(from_mod);
    let tp: Vec<&str> = target.dotted.split('.').collect();
    let mut common = 0;
    while common < pm.len() && common < tp.len() && pm[common] == tp[common] {
        common += 1;
    }
    let cap = if target.is_pkg { tp.len() } else { tp.len() - 1 };
    let k = common.min(cap);
    if allow_rel && k >= 1 && rng.chance(60) {
        let dots = ".".repeat(pm.len() - k + 1);
        format!("{}{}", dots, tp[k..].join("."))
    } else {
        target.dotted.to_string()
    }
}

struct Project {
    files: BTreeMap<String, String>,
    tests: Vec<(usize, String, Vec<(String, usize)>)>, // (module idx, rel path, (name, 0-based line))
    names: Vec<String>,
}

struct Opts {
    renamed: bool,
    imports_first: bool,
    cycles: bool,
    blocks: bool,
}

fn generate(seed: u64, opts: &Opts) -> Project {
    let mut rng = Rng(seed.wrapping_mul(0x9E3779B97F4A7C15) | 1);
    for _ in 0..5 {
        rng.next();
    }
    let mods = modules();
    let plain = ["fa", "fb", "fc", "fd"];
    let renamed = ["ra", "rb"];
    let mut names: Vec<String> = plain.iter().map(|s| s.to_string()).collect();
    if opts.renamed {
        names.extend(renamed.iter().map(|s| s.to_string()));
    }
    // attr -> fixture name guesses per module
    let mut ns: Vec<BTreeMap<String, String>> = vec![BTreeMap::new(); mods.len()];
    let mut files: BTreeMap<String, String> = BTreeMap::new();
    for d in ["lib", "lib/inner", "pa", "pa/sub", "pb"] {
        files.insert(format!("{}/__init__.py", d), String::new());
    }
    let mut tests = Vec::new();

    for (i, m) in mods.iter().enumerate() {
        let in_package = !package_of(m).is_empty();
        let n_stmts = match m.kind {
            0 | 1 => 1 + rng.below(4),
            2 => rng.below(4),
            _ => rng.below(3),
        };
        let mut imports: Vec<String> = Vec::new();
        let mut body: Vec<(bool, String)> = Vec::new(); // (is_import, text)
        for _ in 0..n_stmts {
            let roll = rng.below(100);
            if roll < 40 && m.kind != 3 || roll < 15 {
                // definition
                if opts.renamed && rng.chance(30) {
                    let n = renamed[rng.below(renamed.len())];
                    body.push((
                        false,
                        format!("@pytest.fixture(name=\"{n}\")\ndef {n}_impl():\n    return None\n"),
                    ));
                    ns[i].insert(format!("{n}_impl"), n.to_string());
                } else {
                    let n = plain[rng.below(plain.len())];
                    body.push((false, format!("@pytest.fixture\ndef {n}():\n    return None\n")));
                    ns[i].insert(n.to_string(), n.to_string());
                }
            } else if roll < 92 {
                // import from an importable helper (kind 0), or a conftest above for conftests
                let mut candidates: Vec<usize> = (0..mods.len())
                    .filter(|&j| j != i && mods[j].kind == 0 && (j < i || opts.cycles && rng.chance(15)))
                    .collect();
                if m.kind == 2 && i > 10 && rng.chance(10) {
                    candidates = vec![10 + rng.below(i - 10)];
                }
                if candidates.is_empty() {
                    continue;
                }
                let j = candidates[rng.below(candidates.len())];
                let module_part = spell(&mut rng, m, &mods[j], in_package);
                if mods[j].kind == 2 && !module_part.starts_with('.') {
                    continue; // `from conftest import ...` in a sub-conftest: found already (sibling-first absolute import)
                }
                let explicit = rng.chance(45) && j < i && !ns[j].is_empty();
                let stmt = if explicit {
                    let attrs: Vec<String> = ns[j].keys().cloned().collect();
                    let mut chosen = BTreeSet::new();
                    chosen.insert(attrs[rng.below(attrs.len())].clone());
                    if rng.chance(40) {
                        chosen.insert(attrs[rng.below(attrs.len())].clone());
                    }
                    for a in &chosen {
                        let fx = ns[j][a].clone();
                        ns[i].insert(a.clone(), fx);
                    }
                    let list: Vec<String> = chosen.into_iter().collect();
                    if rng.chance(30) {
                        format!("from {} import (\n    {},\n)\n", module_part, list.join(",\n    "))
                    } else {
                        format!("from {} import {}\n", module_part, list.join(", "))
                    }
                } else {
                    if j < i {
                        let copy = ns[j].clone();
                        ns[i].extend(copy);
                    }
                    format!("from {} import *\n", module_part)
                };
                let stmt = if opts.blocks && rng.chance(20) {
                    let indented: String = stmt.lines().map(|l| format!("    {}\n", l)).collect();
                    if rng.chance(50) {
                        format!("try:\n{}except ImportError:\n    pass\n", indented)
                    } else {
                        format!("if True:\n{}", indented)
                    }
                } else {
                    stmt
                };
                imports.push(stmt.clone());
                body.push((true, stmt));
            } else if (i == 10 || m.kind == 1) && !body.iter().any(|(_, s)| s.contains("pytest_plugins")) {
                // pytest_plugins: plugin-only modules with a lower index, or importable helpers
                let mut cands: Vec<usize> = (0..mods.len())
                    .filter(|&j| j != i && (mods[j].kind == 1 && (j < i || i == 10) || mods[j].kind == 0))
                    .collect();
                if cands.is_empty() {
                    continue;
                }
                let mut list = Vec::new();
                for _ in 0..(1 + rng.below(2)) {
                    let j = cands.remove(rng.below(cands.len()));
                    list.push(format!("\"{}\"", mods[j].dotted));
                    if cands.is_empty() {
                        break;
                    }
                }
                let text = match rng.below(4) {
                    0 => format!("pytest_plugins = [{}]\n", list.join(", ")),
                    1 => format!("pytest_plugins = ({},)\n", list.join(", ")),
                    2 => format!("pytest_plugins: list = [\n    {},\n]\n", list.join(",\n    ")),
                    _ => {
                        if list.len() == 1 {
                            format!("pytest_plugins = {}\n", list[0])
                        } else {
                            format!("pytest_plugins = [\"does.not.exist\"]\npytest_plugins = {}\n", list.join(", "))
                        }
                    }
                };
                // "does.not.exist" first assignment is overwritten: last assignment wins
                body.push((false, text));
            }
        }
        if opts.imports_first {
            body.sort_by_key(|(is_import, _)| !*is_import);
        }
        let mut text = String::from("import pytest\n\n");
        for (_, s) in &body {
            text.push_str(s);
            text.push('\n');
        }
        if m.kind == 3 {
            let mut params = Vec::new();
            text.push_str("\ndef test_it(\n");
            for n in &names {
                let line0 = text.matches('\n').count();
                text.push_str(&format!("    {},\n", n));
                params.push((n.clone(), line0));
            }
            text.push_str("):\n    pass\n");
            tests.push((i, rel_path(m), params));
        }
        files.insert(rel_path(m), text);
    }
    Project { files, tests, names }
}

fn write_project(root: &Path, p: &Project) {
    for (rel, content) in &p.files {
        let path = root.join(rel);
        fs::create_dir_all(path.parent().unwrap()).unwrap();
        fs::write(path, content).unwrap();
    }
    let mods = modules();
    let mut manifest = String::new();
    for m in mods.iter().filter(|m| m.kind == 2) {
        let dir = Path::new(&rel_path(m)).parent().unwrap().to_string_lossy().to_string();
        manifest.push_str(&format!(
            "conftest {} {}\n",
            m.dotted,
            if dir.is_empty() { ".".to_string() } else { dir }
        ));
    }
    for m in mods.iter().filter(|m| m.kind == 3) {
        let dir = Path::new(&rel_path(m)).parent().unwrap().to_string_lossy().to_string();
        manifest.push_str(&format!(
            "test {} {} {}\n",
            m.dotted,
            if dir.is_empty() { ".".to_string() } else { dir },
            rel_path(m)
        ));
    }
    for n in &p.names {
        manifest.push_str(&format!("name {}\n", n));
    }
    fs::write(root.join("manifest.txt"), manifest).unwrap();
}

/// (test rel path, name) -> Some((file, line)) | None ; None overall when illegal
fn oracle(root: &Path) -> Option<BTreeMap<(String, String), Option<Option<(PathBuf, usize)>>>> {
    let oracle_py = Path::new(env!("CARGO_MANIFEST_DIR")).join("oracle.py");
    let out = Command::new(PY).arg(oracle_py).arg(root).output().unwrap();
    let stdout = String::from_utf8_lossy(&out.stdout).to_string();
    if !out.status.success() {
        panic!("oracle failed: {}", String::from_utf8_lossy(&out.stderr));
    }
    let mut map = BTreeMap::new();
    for line in stdout.lines() {
        let parts: Vec<&str> = line.split('\t').collect();
        if parts[0] == "ILLEGAL" {
            return None;
        }
        let key = (parts[0].to_string(), parts[1].to_string());
        match parts[2] {
            "NONE" => {
                map.insert(key, Some(None));
            }
            "AMBIG" => {
                map.insert(key, None);
            }
            file => {
                map.insert(key, Some(Some((PathBuf::from(file), parts[3].parse().unwrap()))));
            }
        }
    }
    Some(map)
}

fn run(seeds: std::ops::Range<u64>, opts: Opts, label: &str) -> usize {
    let keep = Path::new(env!("CARGO_MANIFEST_DIR")).join("fuzz_out");
    let mut mismatches = 0;
    let mut legal = 0;
    for seed in seeds {
        let project = generate(seed, &opts);
        let tmp = tempfile::tempdir().unwrap();
        let root = tmp.path().canonicalize().unwrap();
        write_project(&root, &project);
        let Some(expected) = oracle(&root) else {
            continue;
        };
        legal += 1;
        let db = FixtureDatabase::new();
        db.scan_workspace(&root);
        let mut seed_bad = Vec::new();
        for (_, rel, params) in &project.tests {
            let test_path = root.join(rel);
            let avail: BTreeSet<String> = db
                .get_available_fixtures(&test_path)
                .into_iter()
                .map(|d| d.name)
                .collect();
            for (name, line0) in params {
                let Some(exp) = expected.get(&(rel.clone(), name.clone())).cloned().flatten() else {
                    continue; // ambiguous
                };
                let act = db
                    .find_fixture_definition(&test_path, *line0 as u32, 4)
                    .map(|d| (d.file_path.clone(), d.line));
                if act != exp {
                    seed_bad.push(format!(
                        "  {} {}: goto expected {:?} actual {:?}",
                        rel,
                        name,
                        exp.as_ref().map(|(p, l)| (p.strip_prefix(&root).unwrap().to_path_buf(), *l)),
                        act.as_ref().map(|(p, l)| (p.strip_prefix(&root).unwrap_or(p).to_path_buf(), *l))
                    ));
                }
                if avail.contains(name) != exp.is_some() {
                    seed_bad.push(format!(
                        "  {} {}: completion lists={} expected available={}",
                        rel,
                        name,
                        avail.contains(name),
                        exp.is_some()
                    ));
                }
            }
        }
        if !seed_bad.is_empty() {
            mismatches += 1;
            if mismatches <= 12 {
                println!("[{}] seed {} MISMATCH", label, seed);
                for l in &seed_bad {
                    println!("{}", l);
                }
                let dest = keep.join(format!("{}_{}", label, seed));
                let _ = fs::remove_dir_all(&dest);
                fs::create_dir_all(&dest).unwrap();
                for (rel, content) in &project.files {
                    let p = dest.join(rel);
                    fs::create_dir_all(p.parent().unwrap()).unwrap();
                    fs::write(p, content).unwrap();
                }
            }
        }
    }
    println!("[{}] legal projects: {}, with mismatches: {}", label, legal, mismatches);
    mismatches
}

fn n_seeds() -> u64 {
    std::env::var("HUNT_SEEDS").ok().and_then(|s| s.parse().ok()).unwrap_or(150)
}

#[test]
fn fuzz_acyclic_imports_first() {
    let bad = run(
        0..n_seeds(),
        Opts { renamed: false, imports_first: true, cycles: false, blocks: true },
        "acyclic",
    );
    assert_eq!(bad, 0);
}

#[test]
fn fuzz_cycles_imports_first() {
    let bad = run(
        0..n_seeds(),
        Opts { renamed: false, imports_first: true, cycles: true, blocks: false },
        "cycles",
    );
    assert_eq!(bad, 0);
}

#[test]
fn fuzz_any_order() {
    let bad = run(
        0..n_seeds(),
        Opts { renamed: false, imports_first: false, cycles: false, blocks: false },
        "anyorder",
    );
    assert_eq!(bad, 0);
}

#[test]
fn fuzz_renamed() {
    let bad = run(
        0..n_seeds(),
        Opts { renamed: true, imports_first: true, cycles: false, blocks: false },
        "renamed",
    );
    assert_eq!(bad, 0);
}
