use pytest_language_server::{FixtureDatabase, FixtureDefinition};
use std::fs;
use std::path::{Path, PathBuf};

fn w(root: &Path, rel: &str, content: &str) -> PathBuf {
    let p = root.join(rel);
    fs::create_dir_all(p.parent().unwrap()).unwrap();
    fs::write(&p, content).unwrap();
    p
}

/// A module-level fixture called `name`.
fn fx(name: &str) -> String {
    format!("import pytest\n\n@pytest.fixture\ndef {}():\n    return 1\n\n", name)
}

/// name -> "file:line" of every fixture the completion list offers in `file`.
fn avail(db: &FixtureDatabase, file: &Path) -> Vec<(String, String)> {
    let mut v: Vec<(String, String)> = db
        .get_available_fixtures(file)
        .into_iter()
        .map(|d: FixtureDefinition| {
            (
                d.name.clone(),
                format!(
                    "{}:{} third_party={} plugin={}",
                    d.file_path.file_name().unwrap().to_string_lossy(),
                    d.line,
                    d.is_third_party,
                    d.is_plugin
                ),
            )
        })
        .collect();
    v.sort();
    v
}

fn names(db: &FixtureDatabase, file: &Path) -> Vec<String> {
    avail(db, file).into_iter().map(|(n, _)| n).collect()
}

/// go-to-definition on the parameter `name` of the first `def test_` line of `file`.
fn goto(db: &FixtureDatabase, file: &Path, name: &str) -> Option<PathBuf> {
    let content = fs::read_to_string(file).unwrap();
    for (i, line) in content.lines().enumerate() {
        if line.starts_with("def test_") {
            let col = line
                .find(&format!("({}", name))
                .map(|c| c + 1)
                .or_else(|| line.find(&format!(", {}", name)).map(|c| c + 2))
                .expect("parameter not found");
            return db
                .find_fixture_definition(file, i as u32, col as u32)
                .map(|d| d.file_path);
        }
    }
    panic!("no test function");
}

#[allow(dead_code)]
fn mk_venv(root: &Path) -> PathBuf {
    let sp = root.join(".venv/lib/python3.12/site-packages");
    fs::create_dir_all(&sp).unwrap();
    sp
}

// FINDING 1: fixtures a *test module* imports (star import, explicit import, pytest_plugins)
// are never made available to that test module.
#[test]
fn test_module_star_import_makes_fixture_available() {
    let t = tempfile::tempdir().unwrap();
    let root = t.path().canonicalize().unwrap();
    w(&root, "tests/__init__.py", "");
    let helpers = w(&root, "tests/helpers.py", &fx("star_fix"));
    let test = w(
        &root,
        "tests/test_a.py",
        "from .helpers import *\n\ndef test_one(star_fix):\n    pass\n",
    );
    let db = FixtureDatabase::new();
    db.scan_workspace(&root);
    // the scanner did follow the import: the definition is in the database
    assert!(db.definitions.contains_key("star_fix"), "scanner found the module");
    assert_eq!(goto(&db, &test, "star_fix"), Some(helpers), "go-to-definition");
    assert!(names(&db, &test).contains(&"star_fix".to_string()), "completion list: {:?}", avail(&db, &test));
}

#[test]
fn test_module_explicit_import_makes_fixture_available() {
    let t = tempfile::tempdir().unwrap();
    let root = t.path().canonicalize().unwrap();
    w(&root, "tests/__init__.py", "");
    let helpers = w(&root, "tests/helpers.py", &fx("expl_fix"));
    let test = w(
        &root,
        "tests/test_b.py",
        "from .helpers import expl_fix\n\ndef test_one(expl_fix):\n    pass\n",
    );
    let db = FixtureDatabase::new();
    db.scan_workspace(&root);
    assert!(db.definitions.contains_key("expl_fix"), "scanner found the module");
    assert_eq!(goto(&db, &test, "expl_fix"), Some(helpers), "go-to-definition");
    assert!(names(&db, &test).contains(&"expl_fix".to_string()), "completion list: {:?}", avail(&db, &test));
}
