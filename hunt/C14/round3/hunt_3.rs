//! C14 hunt 3: the virtualenv of a PyPy interpreter is not recognised.
//!
//! `scan_venv_site_packages` (src/fixtures/scanner.rs:520-545) only enters `lib/<dir>` when
//! `<dir>` starts with "python".  A PyPy (3.8+) virtualenv keeps its packages in
//! `lib/pypy3.10/site-packages` (`python -m venv` / virtualenv with a PyPy interpreter), so the
//! function falls through to the Windows fallback, warns "Could not find site-packages in
//! venv" and neither pytest's built-ins nor a single pytest11 plugin is ever indexed.
use pytest_language_server::FixtureDatabase;
use std::fs;
use std::path::{Path, PathBuf};

fn w(root: &Path, rel: &str, content: &str) -> PathBuf {
    let p = root.join(rel);
    fs::create_dir_all(p.parent().unwrap()).unwrap();
    fs::write(&p, content).unwrap();
    p
}

fn venv(root: &Path, site_packages: &str) {
    // pytest's built-ins
    w(root, &format!("{site_packages}/_pytest/__init__.py"), "");
    w(
        root,
        &format!("{site_packages}/_pytest/tmpdir.py"),
        "from .fixtures import fixture\n\n@fixture\ndef tmp_path(request):\n    return 1\n",
    );
    // a pytest11 plugin
    w(
        root,
        &format!("{site_packages}/pytest_foo.py"),
        "import pytest\n\n@pytest.fixture\ndef foo_fix():\n    return 1\n",
    );
    w(
        root,
        &format!("{site_packages}/pytest_foo-1.0.dist-info/entry_points.txt"),
        "[pytest11]\nfoo = pytest_foo\n",
    );
    w(root, "pyvenv.cfg", "");
}

fn third_party_names(db: &FixtureDatabase, p: &Path) -> Vec<String> {
    let mut v: Vec<String> = db
        .get_available_fixtures(p)
        .into_iter()
        .filter(|d| d.is_third_party)
        .map(|d| d.name)
        .collect();
    v.sort();
    v
}

/// Control: the CPython layout.
#[test]
fn cpython_layout_is_found() {
    let t = tempfile::tempdir().unwrap();
    let r = t.path().canonicalize().unwrap();
    venv(&r.join(".venv"), "lib/python3.10/site-packages");
    let tf = w(&r, "test_x.py", "def test_x(tmp_path, foo_fix):\n    pass\n");
    let db = FixtureDatabase::new();
    db.scan_workspace(&r);
    assert_eq!(third_party_names(&db, &tf), vec!["foo_fix", "tmp_path"]);
}

/// The same virtualenv created with PyPy.
#[test]
fn pypy_layout_is_found() {
    let t = tempfile::tempdir().unwrap();
    let r = t.path().canonicalize().unwrap();
    venv(&r.join(".venv"), "lib/pypy3.10/site-packages");
    let tf = w(&r, "test_x.py", "def test_x(tmp_path, foo_fix):\n    pass\n");
    let db = FixtureDatabase::new();
    db.scan_workspace(&r);
    assert_eq!(third_party_names(&db, &tf), vec!["foo_fix", "tmp_path"]);
}
