//! C14 hunt 5: a module under site-packages that is merely IMPORTED (it is not a pytest11
//! plugin, not named in any `pytest_plugins`) leaks all of its fixtures to every file of the
//! workspace.
//!
//! The import scan follows every `from X import ...` of conftest/test files (and of the files
//! it reaches, transitively) into site-packages and analyses what it finds; a definition whose
//! path has a `site-packages` component gets `is_third_party = true`
//! (src/fixtures/analyzer.rs:639), and Priority 4 of the resolver
//! (src/fixtures/resolver.rs:415-425, :752-766) accepts ANY third-party definition, without
//! asking whether its module is a registered plugin (`is_plugin`) or reachable from the
//! requesting file.
use pytest_language_server::FixtureDatabase;
use std::fs;
use std::path::{Path, PathBuf};

fn w(root: &Path, rel: &str, content: &str) -> PathBuf {
    let p = root.join(rel);
    fs::create_dir_all(p.parent().unwrap()).unwrap();
    fs::write(&p, content).unwrap();
    p
}

const SP: &str = ".venv/lib/python3.12/site-packages";

fn names(db: &FixtureDatabase, p: &Path) -> Vec<String> {
    let mut v: Vec<String> = db.get_available_fixtures(p).into_iter().map(|d| d.name).collect();
    v.sort();
    v
}

fn library(r: &Path) {
    // An ordinary library that ships opt-in test helpers; NO pytest11 entry point.
    w(r, &format!("{SP}/somelib/__init__.py"), "");
    w(
        r,
        &format!("{SP}/somelib/testing.py"),
        "import pytest\n\ndef make_thing():\n    return 1\n\n@pytest.fixture\ndef lib_fix():\n    return 1\n\n@pytest.fixture\ndef other_lib_fix():\n    return 2\n",
    );
    w(r, &format!("{SP}/somelib-1.0.dist-info/METADATA"), "Name: somelib\nVersion: 1.0\n");
}

/// tests/a/conftest.py imports ONE fixture; tests/b has nothing to do with it.
#[test]
fn explicit_import_in_one_conftest_is_visible_in_a_sibling_directory() {
    let t = tempfile::tempdir().unwrap();
    let r = t.path().canonicalize().unwrap();
    library(&r);
    w(&r, "tests/a/conftest.py", "from somelib.testing import lib_fix\n");
    let ta = w(&r, "tests/a/test_a.py", "def test_a(lib_fix):\n    pass\n");
    let tb = w(&r, "tests/b/test_b.py", "def test_b(lib_fix, other_lib_fix):\n    pass\n");
    let db = FixtureDatabase::new();
    db.scan_workspace(&r);
    assert_eq!(names(&db, &ta), vec!["lib_fix"], "tests/a: exactly what its conftest imports");
    assert_eq!(names(&db, &tb), Vec::<String>::new(), "tests/b: nothing");
    assert!(db.find_fixture_definition(&tb, 0, 11).is_none(), "lib_fix is unknown in tests/b");
}

/// Not even a fixture is imported: a test file uses a plain helper function of the library.
#[test]
fn importing_a_plain_function_registers_the_modules_fixtures_everywhere() {
    let t = tempfile::tempdir().unwrap();
    let r = t.path().canonicalize().unwrap();
    library(&r);
    w(&r, "tests/a/test_a.py", "from somelib.testing import make_thing\n\ndef test_a():\n    assert make_thing()\n");
    let tb = w(&r, "tests/b/test_b.py", "def test_b(lib_fix):\n    pass\n");
    let db = FixtureDatabase::new();
    db.scan_workspace(&r);
    assert_eq!(names(&db, &tb), Vec::<String>::new());
}
