//! C14 hunt 2: an ABSOLUTE import (and a `pytest_plugins` entry, which is always absolute) is
//! resolved like a Python-2 implicit relative import: `resolve_absolute_import`
//! (src/fixtures/imports.rs:383-396) looks in the importing file's own directory first and then
//! in every ancestor, nearest first.  Python only looks on sys.path.  With pytest's default
//! `prepend` import mode the entry added for `tests/conftest.py` is the first ancestor directory
//! WITHOUT an `__init__.py` - for a `tests` package that is the project root, never `tests/`.
//!
//!   proj/
//!     utils/__init__.py, utils/fixtures.py        <- defines `app_fix`   (what Python imports)
//!     tests/__init__.py
//!     tests/conftest.py                           <- `from utils.fixtures import *`
//!     tests/utils/__init__.py, tests/utils/fixtures.py  <- defines `local_only` (only reachable as
//!                                                    `tests.utils.fixtures` / `.utils.fixtures`)
//!     tests/test_x.py
use pytest_language_server::FixtureDatabase;
use std::fs;
use std::path::{Path, PathBuf};

fn w(root: &Path, rel: &str, content: &str) -> PathBuf {
    let p = root.join(rel);
    fs::create_dir_all(p.parent().unwrap()).unwrap();
    fs::write(&p, content).unwrap();
    p
}

fn fixture_module(name: &str) -> String {
    format!("import pytest\n\n@pytest.fixture\ndef {}():\n    return 1\n", name)
}

fn names(db: &FixtureDatabase, p: &Path) -> Vec<String> {
    let mut v: Vec<String> = db.get_available_fixtures(p).into_iter().map(|d| d.name).collect();
    v.sort();
    v
}

fn project(conftest: &str) -> (tempfile::TempDir, PathBuf, PathBuf) {
    let t = tempfile::tempdir().unwrap();
    let r = t.path().canonicalize().unwrap();
    w(&r, "utils/__init__.py", "");
    w(&r, "utils/fixtures.py", &fixture_module("app_fix"));
    w(&r, "tests/__init__.py", "");
    w(&r, "tests/conftest.py", conftest);
    w(&r, "tests/utils/__init__.py", "");
    w(&r, "tests/utils/fixtures.py", &fixture_module("local_only"));
    let tf = w(&r, "tests/test_x.py", "def test_x(app_fix, local_only):\n    pass\n");
    (t, r, tf)
}

#[test]
fn star_import_of_an_absolute_module() {
    let (_t, r, tf) = project("from utils.fixtures import *\n");
    let db = FixtureDatabase::new();
    db.scan_workspace(&r);
    // Python binds `utils` to proj/utils (proj is on sys.path, proj/tests is not)
    assert_eq!(names(&db, &tf), vec!["app_fix"]);
}

#[test]
fn pytest_plugins_entry() {
    let (_t, r, tf) = project("pytest_plugins = [\"utils.fixtures\"]\n");
    let db = FixtureDatabase::new();
    db.scan_workspace(&r);
    assert_eq!(names(&db, &tf), vec!["app_fix"]);
}

#[test]
fn go_to_definition_lands_in_the_module_python_imports() {
    let (_t, r, tf) = project("from utils.fixtures import *\n");
    let db = FixtureDatabase::new();
    db.scan_workspace(&r);
    // `app_fix` in `def test_x(app_fix, local_only)` is at line 0, column 11
    let def = db
        .find_fixture_definition(&tf, 0, 11)
        .expect("app_fix is what the conftest's star import provides");
    assert_eq!(def.file_path, r.join("utils/fixtures.py"));
    // `local_only` (column 20) is NOT provided by that import
    assert!(db.find_fixture_definition(&tf, 0, 20).is_none());
}
