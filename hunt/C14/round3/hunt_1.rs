//! C14 hunt 1: `pytest_plugins` spellings that pytest accepts but the import extractor drops.
//!
//! pytest's `_get_plugin_specs_as_list` accepts a *comma-separated string*
//! (`pytest_plugins = "plug_a,plug_b"`), and any expression that evaluates to a sequence of
//! strings (`["plug_a"] + ["plug_b"]`, an augmented assignment, ...).
//! `extract_pytest_plugins` (src/fixtures/imports.rs:289-316) only understands a string
//! constant (taken as ONE module name), a list display and a tuple display.
use pytest_language_server::FixtureDatabase;
use std::fs;
use std::path::{Path, PathBuf};

fn w(root: &Path, rel: &str, content: &str) -> PathBuf {
    let p = root.join(rel);
    fs::create_dir_all(p.parent().unwrap()).unwrap();
    fs::write(&p, content).unwrap();
    p
}

fn fixture_module(name: &str) -> String {
    format!("import pytest\n\n@pytest.fixture\ndef {}():\n    return 1\n", name)
}

fn names(db: &FixtureDatabase, p: &Path) -> Vec<String> {
    let mut v: Vec<String> = db.get_available_fixtures(p).into_iter().map(|d| d.name).collect();
    v.sort();
    v
}

fn workspace(conftest: &str) -> (tempfile::TempDir, PathBuf) {
    let t = tempfile::tempdir().unwrap();
    let r = t.path().canonicalize().unwrap();
    w(&r, "conftest.py", conftest);
    w(&r, "plug_a.py", &fixture_module("fa"));
    w(&r, "plug_b.py", &fixture_module("fb"));
    let tf = w(&r, "test_x.py", "def test_x(fa, fb):\n    pass\n");
    (t, tf)
}

/// Control: the list spelling works.
#[test]
fn control_list_spelling() {
    let (t, tf) = workspace("pytest_plugins = [\"plug_a\", \"plug_b\"]\n");
    let db = FixtureDatabase::new();
    db.scan_workspace(&t.path().canonicalize().unwrap());
    assert_eq!(names(&db, &tf), vec!["fa", "fb"]);
}

/// `pytest_plugins = "plug_a,plug_b"`: pytest splits the string at commas.
#[test]
fn comma_separated_string() {
    let (t, tf) = workspace("pytest_plugins = \"plug_a,plug_b\"\n");
    let db = FixtureDatabase::new();
    db.scan_workspace(&t.path().canonicalize().unwrap());
    assert_eq!(names(&db, &tf), vec!["fa", "fb"]);
    // and go-to-definition from the test's parameter `fa` (line 0, column 11)
    let def = db.find_fixture_definition(&tf, 0, 11).expect("fa resolves");
    assert!(def.file_path.ends_with("plug_a.py"));
}

/// `pytest_plugins = ["plug_a"] + ["plug_b"]`: a constant expression, ignored wholesale.
#[test]
fn concatenated_lists() {
    let (t, tf) = workspace("pytest_plugins = [\"plug_a\"] + [\"plug_b\"]\n");
    let db = FixtureDatabase::new();
    db.scan_workspace(&t.path().canonicalize().unwrap());
    assert_eq!(names(&db, &tf), vec!["fa", "fb"]);
}

/// `pytest_plugins = ["plug_a"]` followed by `pytest_plugins += ["plug_b"]`.
#[test]
fn augmented_assignment() {
    let (t, tf) = workspace("pytest_plugins = [\"plug_a\"]\npytest_plugins += [\"plug_b\"]\n");
    let db = FixtureDatabase::new();
    db.scan_workspace(&t.path().canonicalize().unwrap());
    assert_eq!(names(&db, &tf), vec!["fa", "fb"]);
}
