//! Adjacent observation (not counted among the five findings): pytest's own `pythonpath`
//! ini option (pytest >= 7) is not read, so an absolute import that only resolves through it
//! (src layout without an editable install) is a dead end for the scanner and the resolver.
use pytest_language_server::FixtureDatabase;
use std::fs;
use std::path::{Path, PathBuf};

fn w(root: &Path, rel: &str, content: &str) -> PathBuf {
    let p = root.join(rel);
    fs::create_dir_all(p.parent().unwrap()).unwrap();
    fs::write(&p, content).unwrap();
    p
}

#[test]
fn pythonpath_ini_option() {
    let t = tempfile::tempdir().unwrap();
    let r = t.path().canonicalize().unwrap();
    w(&r, "pyproject.toml", "[tool.pytest.ini_options]\npythonpath = [\"src\"]\n");
    w(&r, "tests/conftest.py", "from mypkg.testing import *\n");
    w(&r, "src/mypkg/__init__.py", "");
    w(&r, "src/mypkg/testing.py", "import pytest\n\n@pytest.fixture\ndef pkg_fix():\n    return 1\n");
    let tf = w(&r, "tests/test_x.py", "def test_x(pkg_fix):\n    pass\n");
    let db = FixtureDatabase::new();
    db.scan_workspace(&r);
    let names: Vec<String> = db.get_available_fixtures(&tf).into_iter().map(|d| d.name).collect();
    assert_eq!(names, vec!["pkg_fix"]);
}
