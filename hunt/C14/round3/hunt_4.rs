//! C14 hunt 4: a development-mode ("legacy editable", `setup.py develop`, i.e. what
//! `pip install -e .` does for a project without a PEP 517 build-system table, or with
//! `--no-use-pep517`) install of a pytest plugin is invisible.
//!
//! Layout that setuptools' develop command leaves behind:
//!   <site-packages>/my-plugin.egg-link      ("<source dir>\n.")
//!   <site-packages>/easy-install.pth        (one line per develop install: "<source dir>")
//!   <source dir>/my_plugin.egg-info/entry_points.txt   ([pytest11] myplug = my_plugin.plugin)
//!   <source dir>/my_plugin/plugin.py
//! There is no *.dist-info with a direct_url.json, which is the only thing
//! `discover_editable_installs` (src/fixtures/scanner.rs:816-845) looks for, and
//! `scan_pytest_plugins` (scanner.rs:1028-1040) only reads entry points of *.dist-info /
//! *.egg-info directories that sit IN site-packages.  The egg-info of a develop install sits
//! in the source tree (the workspace walk even skips `*.egg-info` directories).
use pytest_language_server::FixtureDatabase;
use std::fs;
use std::path::{Path, PathBuf};

fn w(root: &Path, rel: &str, content: &str) -> PathBuf {
    let p = root.join(rel);
    fs::create_dir_all(p.parent().unwrap()).unwrap();
    fs::write(&p, content).unwrap();
    p
}

const SP: &str = ".venv/lib/python3.12/site-packages";

fn develop_install(ws: &Path, source_dir: &Path) {
    w(
        source_dir,
        "my_plugin/__init__.py",
        "",
    );
    w(
        source_dir,
        "my_plugin/plugin.py",
        "import pytest\n\n@pytest.fixture\ndef plug_fix():\n    return 1\n",
    );
    w(
        source_dir,
        "my_plugin.egg-info/entry_points.txt",
        "[pytest11]\nmyplug = my_plugin.plugin\n",
    );
    w(source_dir, "my_plugin.egg-info/PKG-INFO", "Metadata-Version: 2.1\nName: my-plugin\nVersion: 0.1\n");
    w(source_dir, "setup.py", "from setuptools import setup\nsetup(name='my-plugin')\n");
    w(ws, &format!("{SP}/my-plugin.egg-link"), &format!("{}\n.", source_dir.display()));
    w(ws, &format!("{SP}/easy-install.pth"), &format!("{}\n", source_dir.display()));
}

/// The plugin under development IS the workspace (the usual case for a plugin author).
#[test]
fn develop_install_of_the_workspace_itself() {
    let t = tempfile::tempdir().unwrap();
    let r = t.path().canonicalize().unwrap();
    develop_install(&r, &r);
    let tf = w(&r, "tests/test_x.py", "def test_x(plug_fix):\n    pass\n");
    let db = FixtureDatabase::new();
    db.scan_workspace(&r);
    let avail = db.get_available_fixtures(&tf);
    let plug = avail.iter().find(|d| d.name == "plug_fix");
    assert!(plug.is_some(), "plug_fix is registered through the pytest11 entry point");
    let plug = plug.unwrap();
    assert!(plug.is_plugin && !plug.is_third_party, "a workspace plugin");
}

/// The plugin lives in another checkout, outside the workspace.
#[test]
fn develop_install_outside_the_workspace() {
    let t = tempfile::tempdir().unwrap();
    let r = t.path().canonicalize().unwrap();
    let ext = tempfile::tempdir().unwrap();
    let e = ext.path().canonicalize().unwrap();
    develop_install(&r, &e);
    let tf = w(&r, "tests/test_x.py", "def test_x(plug_fix):\n    pass\n");
    let db = FixtureDatabase::new();
    db.scan_workspace(&r);
    let avail = db.get_available_fixtures(&tf);
    let plug = avail.iter().find(|d| d.name == "plug_fix");
    assert!(plug.is_some(), "plug_fix is registered through the pytest11 entry point");
    assert!(plug.unwrap().is_third_party, "its source lives outside the workspace");
}
