#!/bin/sh
# Ground truth for hunt_2: which module does CPython bind `utils` to when tests/conftest.py
# (inside the package `tests`) runs `from utils.fixtures import *`?
# pytest (import mode `prepend`) inserts the first ancestor WITHOUT __init__.py - here the
# project root - into sys.path and imports the conftest as `tests.conftest`.
# (pytest itself is not installed in this sandbox; a 3-line stub provides `pytest.fixture`.)
set -e
D=$(mktemp -d)
mkdir -p "$D/stub" "$D/proj/utils" "$D/proj/tests/utils"
printf 'def fixture(f=None, **kw):\n    return f if f else (lambda g: g)\n' > "$D/stub/pytest.py"
: > "$D/proj/utils/__init__.py"
: > "$D/proj/tests/__init__.py"
: > "$D/proj/tests/utils/__init__.py"
printf 'import pytest\n\n@pytest.fixture\ndef app_fix():\n    return 1\n' > "$D/proj/utils/fixtures.py"
printf 'import pytest\n\n@pytest.fixture\ndef local_only():\n    return 1\n' > "$D/proj/tests/utils/fixtures.py"
printf 'from utils.fixtures import *\n' > "$D/proj/tests/conftest.py"
cd "$D/proj"
python3 - "$D" <<'PY'
import sys, importlib
d = sys.argv[1]
sys.path.insert(0, d + "/stub")
sys.path.insert(0, d + "/proj")          # what pytest's prepend mode inserts for tests/conftest.py
c = importlib.import_module("tests.conftest")
print("names bound in tests/conftest.py:", sorted(n for n in vars(c) if n in ("app_fix", "local_only")))
print("utils ->", sys.modules["utils"].__file__.replace(d, "<tmp>"))
PY
rm -rf "$D"
