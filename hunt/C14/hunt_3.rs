use pytest_language_server::{FixtureDatabase, FixtureDefinition};
use std::fs;
use std::path::{Path, PathBuf};

fn w(root: &Path, rel: &str, content: &str) -> PathBuf {
    let p = root.join(rel);
    fs::create_dir_all(p.parent().unwrap()).unwrap();
    fs::write(&p, content).unwrap();
    p
}

/// A module-level fixture called `name`.
fn fx(name: &str) -> String {
    format!("import pytest\n\n@pytest.fixture\ndef {}():\n    return 1\n\n", name)
}

/// name -> "file:line" of every fixture the completion list offers in `file`.
fn avail(db: &FixtureDatabase, file: &Path) -> Vec<(String, String)> {
    let mut v: Vec<(String, String)> = db
        .get_available_fixtures(file)
        .into_iter()
        .map(|d: FixtureDefinition| {
            (
                d.name.clone(),
                format!(
                    "{}:{} third_party={} plugin={}",
                    d.file_path.file_name().unwrap().to_string_lossy(),
                    d.line,
                    d.is_third_party,
                    d.is_plugin
                ),
            )
        })
        .collect();
    v.sort();
    v
}

fn names(db: &FixtureDatabase, file: &Path) -> Vec<String> {
    avail(db, file).into_iter().map(|(n, _)| n).collect()
}

/// go-to-definition on the parameter `name` of the first `def test_` line of `file`.
fn goto(db: &FixtureDatabase, file: &Path, name: &str) -> Option<PathBuf> {
    let content = fs::read_to_string(file).unwrap();
    for (i, line) in content.lines().enumerate() {
        if line.starts_with("def test_") {
            let col = line
                .find(&format!("({}", name))
                .map(|c| c + 1)
                .or_else(|| line.find(&format!(", {}", name)).map(|c| c + 2))
                .expect("parameter not found");
            return db
                .find_fixture_definition(file, i as u32, col as u32)
                .map(|d| d.file_path);
        }
    }
    panic!("no test function");
}

#[allow(dead_code)]
fn mk_venv(root: &Path) -> PathBuf {
    let sp = root.join(".venv/lib/python3.12/site-packages");
    fs::create_dir_all(&sp).unwrap();
    sp
}

// FINDING 3: two imports bind the same fixture name in a conftest: Python keeps the LAST
// binding, the server resolves to the FIRST.
#[test]
fn later_import_rebinds_the_name() {
    let t = tempfile::tempdir().unwrap();
    let root = t.path().canonicalize().unwrap();
    w(&root, "tests/__init__.py", "");
    w(&root, "tests/a.py", &fx("fix"));
    let b = w(&root, "tests/b.py", &fx("fix"));
    w(&root, "tests/conftest.py", "from .a import *\nfrom .b import *\n");
    let test = w(&root, "tests/test_a.py", "def test_one(fix):\n    pass\n");
    let db = FixtureDatabase::new();
    db.scan_workspace(&root);
    println!("available: {:?}", avail(&db, &test));
    // `conftest.fix` is b.fix after both statements ran; pytest registers that object.
    assert_eq!(goto(&db, &test, "fix"), Some(b.clone()), "go-to-definition");
    let listed = db
        .get_available_fixtures(&test)
        .into_iter()
        .find(|d| d.name == "fix")
        .unwrap();
    assert_eq!(listed.file_path, b, "completion list");
}

#[test]
fn later_explicit_import_rebinds_star_import() {
    let t = tempfile::tempdir().unwrap();
    let root = t.path().canonicalize().unwrap();
    w(&root, "tests/__init__.py", "");
    w(&root, "tests/a.py", &fx("fix"));
    let b = w(&root, "tests/b.py", &fx("fix"));
    w(&root, "tests/conftest.py", "from .a import *\nfrom .b import fix\n");
    let test = w(&root, "tests/test_a.py", "def test_one(fix):\n    pass\n");
    let db = FixtureDatabase::new();
    db.scan_workspace(&root);
    assert_eq!(goto(&db, &test, "fix"), Some(b), "go-to-definition");
}
