use pytest_language_server::{FixtureDatabase, FixtureDefinition};
use std::fs;
use std::path::{Path, PathBuf};

fn w(root: &Path, rel: &str, content: &str) -> PathBuf {
    let p = root.join(rel);
    fs::create_dir_all(p.parent().unwrap()).unwrap();
    fs::write(&p, content).unwrap();
    p
}

/// A module-level fixture called `name`.
fn fx(name: &str) -> String {
    format!("import pytest\n\n@pytest.fixture\ndef {}():\n    return 1\n\n", name)
}

/// name -> "file:line" of every fixture the completion list offers in `file`.
fn avail(db: &FixtureDatabase, file: &Path) -> Vec<(String, String)> {
    let mut v: Vec<(String, String)> = db
        .get_available_fixtures(file)
        .into_iter()
        .map(|d: FixtureDefinition| {
            (
                d.name.clone(),
                format!(
                    "{}:{} third_party={} plugin={}",
                    d.file_path.file_name().unwrap().to_string_lossy(),
                    d.line,
                    d.is_third_party,
                    d.is_plugin
                ),
            )
        })
        .collect();
    v.sort();
    v
}

fn names(db: &FixtureDatabase, file: &Path) -> Vec<String> {
    avail(db, file).into_iter().map(|(n, _)| n).collect()
}

/// go-to-definition on the parameter `name` of the first `def test_` line of `file`.
fn goto(db: &FixtureDatabase, file: &Path, name: &str) -> Option<PathBuf> {
    let content = fs::read_to_string(file).unwrap();
    for (i, line) in content.lines().enumerate() {
        if line.starts_with("def test_") {
            let col = line
                .find(&format!("({}", name))
                .map(|c| c + 1)
                .or_else(|| line.find(&format!(", {}", name)).map(|c| c + 2))
                .expect("parameter not found");
            return db
                .find_fixture_definition(file, i as u32, col as u32)
                .map(|d| d.file_path);
        }
    }
    panic!("no test function");
}

#[allow(dead_code)]
fn mk_venv(root: &Path) -> PathBuf {
    let sp = root.join(".venv/lib/python3.12/site-packages");
    fs::create_dir_all(&sp).unwrap();
    sp
}

// FINDING 5: setuptools "finder" style editable install (the .pth holds an import line, the
// source mapping lives in __editable___<pkg>_finder.py): the plugin is not discovered.
#[test]
fn finder_style_editable_plugin_is_found() {
    let t = tempfile::tempdir().unwrap();
    let root = t.path().canonicalize().unwrap();
    let sp = mk_venv(&root);
    w(&root, "myplug/myplug/__init__.py", "");
    let plugin = w(&root, "myplug/myplug/plugin.py", &fx("finder_fix"));
    w(&sp, "myplug-0.1.0.dist-info/entry_points.txt", "[pytest11]\nmyplug = myplug.plugin\n");
    w(
        &sp,
        "myplug-0.1.0.dist-info/direct_url.json",
        &format!("{{\"url\": \"file://{}/myplug\", \"dir_info\": {{\"editable\": true}}}}", root.display()),
    );
    w(
        &sp,
        "__editable__.myplug-0.1.0.pth",
        "import __editable___myplug_0_1_0_finder; __editable___myplug_0_1_0_finder.install()\n",
    );
    w(
        &sp,
        "__editable___myplug_0_1_0_finder.py",
        &format!(
            "MAPPING: dict[str, str] = {{'myplug': '{}/myplug/myplug'}}\nNAMESPACES: dict[str, list[str]] = {{}}\n",
            root.display()
        ),
    );
    let test = w(&root, "tests/test_a.py", "def test_one(finder_fix):\n    pass\n");
    let db = FixtureDatabase::new();
    db.scan_workspace(&root);
    println!("available: {:?}", avail(&db, &test));
    println!("editable installs: {:?}", db.editable_install_roots.lock().unwrap());
    assert_eq!(goto(&db, &test, "finder_fix"), Some(plugin));
}

// control: identical layout, path-style .pth -> found
#[test]
fn control_path_style_editable_plugin_is_found() {
    let t = tempfile::tempdir().unwrap();
    let root = t.path().canonicalize().unwrap();
    let sp = mk_venv(&root);
    w(&root, "myplug/myplug/__init__.py", "");
    let plugin = w(&root, "myplug/myplug/plugin.py", &fx("finder_fix"));
    w(&sp, "myplug-0.1.0.dist-info/entry_points.txt", "[pytest11]\nmyplug = myplug.plugin\n");
    w(
        &sp,
        "myplug-0.1.0.dist-info/direct_url.json",
        &format!("{{\"url\": \"file://{}/myplug\", \"dir_info\": {{\"editable\": true}}}}", root.display()),
    );
    w(&sp, "__editable__.myplug-0.1.0.pth", &format!("{}/myplug\n", root.display()));
    let test = w(&root, "tests/test_a.py", "def test_one(finder_fix):\n    pass\n");
    let db = FixtureDatabase::new();
    db.scan_workspace(&root);
    assert_eq!(goto(&db, &test, "finder_fix"), Some(plugin));
}
