use pytest_language_server::{FixtureDatabase, FixtureDefinition};
use std::fs;
use std::path::{Path, PathBuf};

fn w(root: &Path, rel: &str, content: &str) -> PathBuf {
    let p = root.join(rel);
    fs::create_dir_all(p.parent().unwrap()).unwrap();
    fs::write(&p, content).unwrap();
    p
}

/// A module-level fixture called `name`.
fn fx(name: &str) -> String {
    format!("import pytest\n\n@pytest.fixture\ndef {}():\n    return 1\n\n", name)
}

/// name -> "file:line" of every fixture the completion list offers in `file`.
fn avail(db: &FixtureDatabase, file: &Path) -> Vec<(String, String)> {
    let mut v: Vec<(String, String)> = db
        .get_available_fixtures(file)
        .into_iter()
        .map(|d: FixtureDefinition| {
            (
                d.name.clone(),
                format!(
                    "{}:{} third_party={} plugin={}",
                    d.file_path.file_name().unwrap().to_string_lossy(),
                    d.line,
                    d.is_third_party,
                    d.is_plugin
                ),
            )
        })
        .collect();
    v.sort();
    v
}

fn names(db: &FixtureDatabase, file: &Path) -> Vec<String> {
    avail(db, file).into_iter().map(|(n, _)| n).collect()
}

/// go-to-definition on the parameter `name` of the first `def test_` line of `file`.
fn goto(db: &FixtureDatabase, file: &Path, name: &str) -> Option<PathBuf> {
    let content = fs::read_to_string(file).unwrap();
    for (i, line) in content.lines().enumerate() {
        if line.starts_with("def test_") {
            let col = line
                .find(&format!("({}", name))
                .map(|c| c + 1)
                .or_else(|| line.find(&format!(", {}", name)).map(|c| c + 2))
                .expect("parameter not found");
            return db
                .find_fixture_definition(file, i as u32, col as u32)
                .map(|d| d.file_path);
        }
    }
    panic!("no test function");
}

#[allow(dead_code)]
fn mk_venv(root: &Path) -> PathBuf {
    let sp = root.join(".venv/lib/python3.12/site-packages");
    fs::create_dir_all(&sp).unwrap();
    sp
}

// FINDING 4: imports and pytest_plugins that sit inside a module-level `try:` / `if:` block
// are not seen at all (neither by the scanner nor by the resolver).
#[test]
fn guarded_star_import_in_try_block() {
    let t = tempfile::tempdir().unwrap();
    let root = t.path().canonicalize().unwrap();
    w(&root, "tests/__init__.py", "");
    w(&root, "tests/a.py", &fx("try_fix"));
    w(
        &root,
        "tests/conftest.py",
        "try:\n    from .a import *\nexcept ImportError:\n    raise\n",
    );
    let test = w(&root, "tests/test_a.py", "def test_one(try_fix):\n    pass\n");
    let db = FixtureDatabase::new();
    db.scan_workspace(&root);
    println!("available: {:?}", avail(&db, &test));
    assert!(db.definitions.contains_key("try_fix"), "scanner follows the import");
    assert!(names(&db, &test).contains(&"try_fix".to_string()));
}

#[test]
fn guarded_import_and_plugins_in_if_block() {
    let t = tempfile::tempdir().unwrap();
    let root = t.path().canonicalize().unwrap();
    w(&root, "tests/__init__.py", "");
    w(&root, "tests/b.py", &fx("if_fix"));
    w(&root, "tests/c.py", &fx("plug_fix"));
    w(
        &root,
        "tests/conftest.py",
        "import sys\nif sys.version_info >= (3, 8):\n    from .b import if_fix\n    pytest_plugins = ['tests.c']\n",
    );
    let test = w(&root, "tests/test_a.py", "def test_one(if_fix, plug_fix):\n    pass\n");
    let db = FixtureDatabase::new();
    db.scan_workspace(&root);
    println!("available: {:?}", avail(&db, &test));
    let got = names(&db, &test);
    assert!(got.contains(&"if_fix".to_string()), "explicit import under if");
    assert!(got.contains(&"plug_fix".to_string()), "pytest_plugins under if");
}
