use pytest_language_server::{FixtureDatabase, FixtureDefinition};
use std::fs;
use std::path::{Path, PathBuf};

fn w(root: &Path, rel: &str, content: &str) -> PathBuf {
    let p = root.join(rel);
    fs::create_dir_all(p.parent().unwrap()).unwrap();
    fs::write(&p, content).unwrap();
    p
}

/// A module-level fixture called `name`.
fn fx(name: &str) -> String {
    format!("import pytest\n\n@pytest.fixture\ndef {}():\n    return 1\n\n", name)
}

/// name -> "file:line" of every fixture the completion list offers in `file`.
fn avail(db: &FixtureDatabase, file: &Path) -> Vec<(String, String)> {
    let mut v: Vec<(String, String)> = db
        .get_available_fixtures(file)
        .into_iter()
        .map(|d: FixtureDefinition| {
            (
                d.name.clone(),
                format!(
                    "{}:{} third_party={} plugin={}",
                    d.file_path.file_name().unwrap().to_string_lossy(),
                    d.line,
                    d.is_third_party,
                    d.is_plugin
                ),
            )
        })
        .collect();
    v.sort();
    v
}

fn names(db: &FixtureDatabase, file: &Path) -> Vec<String> {
    avail(db, file).into_iter().map(|(n, _)| n).collect()
}

/// go-to-definition on the parameter `name` of the first `def test_` line of `file`.
fn goto(db: &FixtureDatabase, file: &Path, name: &str) -> Option<PathBuf> {
    let content = fs::read_to_string(file).unwrap();
    for (i, line) in content.lines().enumerate() {
        if line.starts_with("def test_") {
            let col = line
                .find(&format!("({}", name))
                .map(|c| c + 1)
                .or_else(|| line.find(&format!(", {}", name)).map(|c| c + 2))
                .expect("parameter not found");
            return db
                .find_fixture_definition(file, i as u32, col as u32)
                .map(|d| d.file_path);
        }
    }
    panic!("no test function");
}

#[allow(dead_code)]
fn mk_venv(root: &Path) -> PathBuf {
    let sp = root.join(".venv/lib/python3.12/site-packages");
    fs::create_dir_all(&sp).unwrap();
    sp
}

// EXTRA observations (not counted among the five; each reproduced, different root causes).

// (a) star import ignores `__all__` and the underscore rule: names Python does not import are
//     offered as available.
#[test]
fn extra_a_star_import_respects_all_and_underscore() {
    let t = tempfile::tempdir().unwrap();
    let root = t.path().canonicalize().unwrap();
    w(&root, "tests/__init__.py", "");
    w(
        &root,
        "tests/a.py",
        &format!("__all__ = ['pub_fix']\n{}{}", fx("pub_fix"), fx("not_exported")),
    );
    w(&root, "tests/u.py", &format!("{}{}", fx("visible_fix"), fx("_hidden_fix")));
    w(&root, "tests/conftest.py", "from .a import *\nfrom .u import *\n");
    let test = w(&root, "tests/test_a.py", "def test_one(pub_fix):\n    pass\n");
    let db = FixtureDatabase::new();
    db.scan_workspace(&root);
    let got = names(&db, &test);
    println!("available: {:?}", got);
    assert!(got.contains(&"pub_fix".to_string()) && got.contains(&"visible_fix".to_string()));
    assert!(!got.contains(&"not_exported".to_string()), "not in __all__, star import does not bind it");
    assert!(!got.contains(&"_hidden_fix".to_string()), "underscore name, star import does not bind it");
}

// (b) an import added by an edit after the scan: the newly imported module is never analysed.
#[test]
fn extra_b_import_added_by_edit() {
    let t = tempfile::tempdir().unwrap();
    let root = t.path().canonicalize().unwrap();
    w(&root, "tests/__init__.py", "");
    w(&root, "tests/a.py", &fx("late_fix"));
    let conftest = w(&root, "tests/conftest.py", "\n");
    let test = w(&root, "tests/test_a.py", "def test_one(late_fix):\n    pass\n");
    let db = FixtureDatabase::new();
    db.scan_workspace(&root);
    // didChange / didSave of conftest.py
    fs::write(&conftest, "from .a import *\n").unwrap();
    db.analyze_file(conftest.clone(), "from .a import *\n");
    println!("available: {:?}", avail(&db, &test));
    assert!(names(&db, &test).contains(&"late_fix".to_string()));
}

// (c) pytest_plugins = "a,b" (pytest splits a string spec on commas)
#[test]
fn extra_c_pytest_plugins_comma_string() {
    let t = tempfile::tempdir().unwrap();
    let root = t.path().canonicalize().unwrap();
    w(&root, "plug/__init__.py", "");
    w(&root, "plug/a.py", &fx("a_fix"));
    w(&root, "plug/b.py", &fx("b_fix"));
    w(&root, "conftest.py", "pytest_plugins = 'plug.a,plug.b'\n");
    let test = w(&root, "tests/test_a.py", "def test_one(a_fix, b_fix):\n    pass\n");
    let db = FixtureDatabase::new();
    db.scan_workspace(&root);
    let got = names(&db, &test);
    println!("available: {:?}", got);
    assert!(got.contains(&"a_fix".to_string()) && got.contains(&"b_fix".to_string()));
}

// (d) `from .a import orig as renamed`: pytest registers the fixture under the attribute
//     name `renamed`; the server offers neither name.
#[test]
fn extra_d_aliased_explicit_import() {
    let t = tempfile::tempdir().unwrap();
    let root = t.path().canonicalize().unwrap();
    w(&root, "tests/__init__.py", "");
    w(&root, "tests/a.py", &fx("orig"));
    w(&root, "tests/conftest.py", "from .a import orig as renamed\n");
    let test = w(&root, "tests/test_a.py", "def test_one(renamed):\n    pass\n");
    let db = FixtureDatabase::new();
    db.scan_workspace(&root);
    let got = names(&db, &test);
    println!("available: {:?}", got);
    assert!(got.contains(&"renamed".to_string()));
}
