//! C04 hunt 2: the CLI counter keys its counts by (file, fixture name) instead of by
//! definition. Two fixtures with the same name in one file (the ordinary case of
//! class-local fixtures in two test classes of one module) share ONE counter, so the
//! CLI count of a definition is not the size of its reference set, and
//! `fixtures unused` never reports the unused one although its code lens says
//! "0 usages".

use pytest_language_server::FixtureDatabase;
use std::fs;

#[test]
fn cli_count_equals_reference_set_per_definition() {
    let dir = tempfile::tempdir().unwrap();
    let root = dir.path().canonicalize().unwrap();
    let file = root.join("test_classes.py");
    let src = "\
import pytest


class TestA:
    @pytest.fixture
    def data(self):
        return 1

    def test_a(self):
        pass


class TestB:
    @pytest.fixture
    def data(self):
        return 2

    def test_b(self, data):
        pass
";
    fs::write(&file, src).unwrap();

    let db = FixtureDatabase::new();
    db.scan_workspace(&root);

    let defs: Vec<_> = db.definitions.get("data").unwrap().clone();
    assert_eq!(defs.len(), 2);

    // Reference sets per definition (what code lens / incoming calls show)
    let mut any_unused_by_refs = Vec::new();
    for d in &defs {
        let n = db.find_references_for_definition(d).len();
        println!("code-lens count of `data` defined at line {}: {}", d.line, n);
        if n == 0 {
            any_unused_by_refs.push(d.line);
        }
    }
    // go-to-definition on the only usage (line 18, 1-based: `def test_b(self, data):`)
    let landed = db.find_fixture_definition(&file, 17, 21).unwrap();
    println!("goto on the only usage lands on line {}", landed.line);
    assert_eq!(landed.line, 15);
    assert_eq!(
        any_unused_by_refs,
        vec![6],
        "TestA.data (line 6) has an empty reference set"
    );

    // The CLI (`fixtures unused`) must therefore report TestA.data as unused.
    let unused = db.get_unused_fixtures();
    println!("CLI `fixtures unused`: {:?}", unused);
    assert!(
        unused.iter().any(|(p, n)| p == &file && n == "data"),
        "CLI does not report the definition whose reference set is empty: \
         per-fixture CLI count != size of the reference set"
    );
}
