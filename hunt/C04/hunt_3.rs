//! C04 hunt 3: history open -> change (unsaved) -> close.
//!
//! `did_close` only calls `FixtureDatabase::cleanup_file_cache`, which drops the cached
//! text but keeps the usages (and definitions) recorded from the unsaved buffer; the file
//! is never re-analysed from disk. After the close the index describes a document that no
//! longer exists anywhere: the usage typed in the discarded buffer is still listed among
//! the references of the definition (and counted by code lens / call hierarchy), while
//! go-to-definition on that very usage lands nowhere, because it reads the text from disk.
//! Variant b: the file is deleted on disk and its tab closed - same thing.

use pytest_language_server::FixtureDatabase;
use std::fs;

const CONFTEST: &str = "\
import pytest

@pytest.fixture
def db():
    return 1
";

const ON_DISK: &str = "\
def test_one():
    pass
";

// what the user typed and then discarded (closed the tab without saving)
const UNSAVED: &str = "\
def test_one():
    pass

def test_two(db):
    pass
";

#[test]
fn close_without_saving_leaves_a_phantom_reference() {
    let dir = tempfile::tempdir().unwrap();
    let root = dir.path().canonicalize().unwrap();
    let conftest = root.join("conftest.py");
    let test_file = root.join("test_x.py");
    fs::write(&conftest, CONFTEST).unwrap();
    fs::write(&test_file, ON_DISK).unwrap();

    let db = FixtureDatabase::new();
    db.scan_workspace(&root);
    let def = db.definitions.get("db").unwrap()[0].clone();
    assert_eq!(db.find_references_for_definition(&def).len(), 0);

    // didOpen (disk text), didChange (unsaved text), didClose  -- exactly what main.rs does
    db.analyze_file(test_file.clone(), ON_DISK);
    db.analyze_file(test_file.clone(), UNSAVED);
    db.cleanup_file_cache(&test_file);

    let refs = db.find_references_for_definition(&def);
    println!(
        "references of `db` after the close: {:?}",
        refs.iter()
            .map(|u| (u.file_path.clone(), u.line, u.start_char))
            .collect::<Vec<_>>()
    );
    for u in &refs {
        let landed = db.find_fixture_definition(&u.file_path, (u.line - 1) as u32, u.start_char as u32);
        println!(
            "goto on listed reference {}:{}:{} -> {:?}",
            u.file_path.display(),
            u.line,
            u.start_char,
            landed.as_ref().map(|d| (d.file_path.clone(), d.line))
        );
        assert_eq!(
            landed.as_ref(),
            Some(&def),
            "a usage is listed among the references of `db` but go-to-definition on it does not land on `db`"
        );
    }
    // The workspace on disk (and in every editor buffer) contains no usage of `db` at all.
    assert_eq!(refs.len(), 0, "phantom reference from a discarded buffer");
}

#[test]
fn deleted_file_keeps_its_references() {
    let dir = tempfile::tempdir().unwrap();
    let root = dir.path().canonicalize().unwrap();
    let conftest = root.join("conftest.py");
    let test_file = root.join("test_x.py");
    fs::write(&conftest, CONFTEST).unwrap();
    fs::write(&test_file, UNSAVED).unwrap();

    let db = FixtureDatabase::new();
    db.scan_workspace(&root);
    let def = db.definitions.get("db").unwrap()[0].clone();
    assert_eq!(db.find_references_for_definition(&def).len(), 1);

    // the user opens the file, deletes it (git checkout, rm, ...) and the editor closes the tab
    db.analyze_file(test_file.clone(), UNSAVED);
    fs::remove_file(&test_file).unwrap();
    db.cleanup_file_cache(&test_file);

    let refs = db.find_references_for_definition(&def);
    for u in &refs {
        let landed = db.find_fixture_definition(&u.file_path, (u.line - 1) as u32, u.start_char as u32);
        println!(
            "listed reference {}:{} (file exists: {}) -> goto {:?}",
            u.file_path.display(),
            u.line,
            u.file_path.exists(),
            landed.as_ref().map(|d| d.line)
        );
        assert_eq!(landed.as_ref(), Some(&def));
    }
}
