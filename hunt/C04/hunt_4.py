#!/usr/bin/env python3
"""C04 hunt 4 - drives the real server binary over stdio.

A fixture registered under another name (`@pytest.fixture(name="db") def _db_fixture():`,
the standard idiom to avoid pylint's redefined-outer-name) gets a code lens
"2 usages" whose command points at (line, start_char) of the *function* name.
`find_fixture_at_position` / `find_fixture_or_definition_at_position` compare the word
under the cursor with the *fixture* name, so at the definition:
  - textDocument/references  -> null        (code lens says 2)
  - prepareCallHierarchy     -> null        (so incoming calls cannot even be asked)
while go-to-definition on both usages lands exactly on this definition.

Exit status 1 = violation reproduced.
"""
import json
import os
import subprocess
import sys
import tempfile
import pathlib

HERE = pathlib.Path(__file__).resolve().parent
BIN = HERE / "target" / "debug" / "pytest-language-server"


class Lsp:
    def __init__(self, root):
        self.p = subprocess.Popen([str(BIN)], stdin=subprocess.PIPE, stdout=subprocess.PIPE,
                                  stderr=subprocess.DEVNULL)
        self.id = 0
        self.notes = []

    def _send(self, msg):
        body = json.dumps(msg).encode()
        self.p.stdin.write(b"Content-Length: %d\r\n\r\n" % len(body) + body)
        self.p.stdin.flush()

    def _read(self):
        length = None
        while True:
            line = self.p.stdout.readline()
            if not line:
                raise RuntimeError("server closed")
            line = line.strip()
            if not line:
                break
            if line.lower().startswith(b"content-length:"):
                length = int(line.split(b":")[1])
        return json.loads(self.p.stdout.read(length))

    def notify(self, method, params):
        self._send({"jsonrpc": "2.0", "method": method, "params": params})

    def request(self, method, params):
        self.id += 1
        rid = self.id
        self._send({"jsonrpc": "2.0", "id": rid, "method": method, "params": params})
        while True:
            m = self._read()
            if "id" in m and "method" in m:  # server->client request: answer null
                self._send({"jsonrpc": "2.0", "id": m["id"], "result": None})
                continue
            if m.get("id") == rid:
                return m.get("result")
            self.notes.append(m)

    def wait_for_log(self, text):
        for m in self.notes:
            if text in json.dumps(m):
                return
        while True:
            m = self._read()
            if "id" in m and "method" in m:
                self._send({"jsonrpc": "2.0", "id": m["id"], "result": None})
                continue
            self.notes.append(m)
            if text in json.dumps(m):
                return


def uri(p):
    return pathlib.Path(p).as_uri()


def main():
    root = pathlib.Path(tempfile.mkdtemp(prefix="c04_h4_")).resolve()
    conftest = root / "conftest.py"
    conftest_src = (
        "import pytest\n"
        "\n"
        "\n"
        "@pytest.fixture(name=\"db\")\n"
        "def _db_fixture():\n"
        "    return 1\n"
    )
    conftest.write_text(conftest_src)
    test = root / "test_x.py"
    test_src = (
        "def test_one(db):\n"
        "    pass\n"
        "\n"
        "def test_two(db):\n"
        "    pass\n"
    )
    test.write_text(test_src)

    s = Lsp(root)
    s.request("initialize", {"processId": os.getpid(), "rootUri": uri(root), "capabilities": {}})
    s.notify("initialized", {})
    s.wait_for_log("Workspace scan complete")
    s.notify("textDocument/didOpen", {"textDocument": {
        "uri": uri(conftest), "languageId": "python", "version": 1, "text": conftest_src}})
    s.notify("textDocument/didOpen", {"textDocument": {
        "uri": uri(test), "languageId": "python", "version": 1, "text": test_src}})

    lenses = s.request("textDocument/codeLens", {"textDocument": {"uri": uri(conftest)}})
    assert lenses and len(lenses) == 1, lenses
    cmd = lenses[0]["command"]
    lens_title = cmd["title"]
    lens_uri, lens_line, lens_char = cmd["arguments"]
    print("code lens on the definition :", lens_title, "-> command args", cmd["arguments"][1:])

    # go-to-definition on every usage
    landed = []
    for line in (0, 3):
        r = s.request("textDocument/definition", {
            "textDocument": {"uri": uri(test)}, "position": {"line": line, "character": 13}})
        landed.append((r["uri"].rsplit("/", 1)[-1], r["range"]["start"]["line"]))
    print("goto on the two usages lands :", landed)

    # what the code lens command asks for: references at (line, start_char) of the definition
    refs = s.request("textDocument/references", {
        "textDocument": {"uri": lens_uri}, "position": {"line": lens_line, "character": lens_char},
        "context": {"includeDeclaration": False}})
    print("references at the definition :", refs)

    prep = s.request("textDocument/prepareCallHierarchy", {
        "textDocument": {"uri": lens_uri}, "position": {"line": lens_line, "character": lens_char}})
    print("prepareCallHierarchy at def  :", prep)

    # for comparison: the same request from a usage works
    refs_from_usage = s.request("textDocument/references", {
        "textDocument": {"uri": uri(test)}, "position": {"line": 0, "character": 13},
        "context": {"includeDeclaration": False}})
    print("references from a usage      :", len(refs_from_usage or []), "locations (incl. the declaration)")

    s.request("shutdown", None)
    s.notify("exit", None)

    lens_n = int(lens_title.split()[0])
    n_refs = len([r for r in (refs or []) if not r["uri"].endswith("conftest.py")])
    ok = (n_refs == lens_n) and prep
    if not ok:
        print("VIOLATION: code lens shows %d usages, both usages go to this definition, but the "
              "references of the definition are %s and its call hierarchy item is %s"
              % (lens_n, "null" if refs is None else n_refs, "null" if not prep else "present"))
        sys.exit(1)
    print("ok")


if __name__ == "__main__":
    main()
