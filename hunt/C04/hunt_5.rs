//! C04 hunt 5: usage columns are BYTE offsets, the cursor column is a CHARACTER index.
//!
//! `record_fixture_usage` stores `start_char`/`end_char` as byte offsets into the line
//! (`get_char_position_from_offset`), but `find_fixture_definition` compares them with
//! the LSP `character` (and uses that same number as a char index in
//! `extract_word_at_position`). With non-ASCII text earlier on the line (a `reason="..."`
//! in the same `pytestmark` list, a non-ASCII parameter name, ...) the two drift apart:
//! the usage is listed among the references of D, yet go-to-definition lands on D from
//! NO column of the usage - neither its real columns nor the recorded ones.

use pytest_language_server::FixtureDatabase;
use std::fs;

#[test]
fn goto_lands_on_definition_for_a_listed_reference() {
    let dir = tempfile::tempdir().unwrap();
    let root = dir.path().canonicalize().unwrap();
    let conftest = root.join("conftest.py");
    fs::write(
        &conftest,
        "import pytest\n\n@pytest.fixture\ndef db():\n    return 1\n",
    )
    .unwrap();
    let test_file = root.join("test_x.py");
    let line = "pytestmark = [pytest.mark.skip(reason=\"пока не готово\"), pytest.mark.usefixtures(\"db\")]";
    let src = format!("import pytest\n\n{}\n\ndef test_one():\n    pass\n", line);
    fs::write(&test_file, &src).unwrap();

    let db = FixtureDatabase::new();
    db.scan_workspace(&root);
    let def = db.definitions.get("db").unwrap()[0].clone();

    let refs = db.find_references_for_definition(&def);
    assert_eq!(refs.len(), 1, "the usefixtures(\"db\") usage is a reference of `db`");
    let u = &refs[0];

    // real column of `db` inside the string, in characters (== UTF-16 units here, all BMP)
    let byte_col = line.find("\"db\"").unwrap() + 1;
    let char_col = line[..byte_col].chars().count();
    println!(
        "usage recorded at columns {}..{}; real character columns {}..{}",
        u.start_char,
        u.end_char,
        char_col,
        char_col + 2
    );

    let mut landed_from = Vec::new();
    let n_chars = line.chars().count();
    for col in 0..n_chars {
        if let Some(d) = db.find_fixture_definition(&test_file, 2, col as u32) {
            if d == def {
                landed_from.push(col);
            }
        }
    }
    println!("columns of that line from which goto lands on `db`: {:?}", landed_from);
    assert!(
        landed_from.contains(&char_col),
        "usage is listed among the references of `db`, but go-to-definition on the usage \
         (line 3, column {}) does not land on `db`",
        char_col
    );
}
