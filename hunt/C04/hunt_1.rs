//! C04 hunt 1: a fixture whose function name starts with `test_` (the ubiquitous
//! `test_client`, `test_app`, `test_db`, ...) has every dependency recorded TWICE:
//! once by the "is a fixture" branch and once by the "is a test" branch of
//! `visit_stmt`. The same usage is then listed twice among the references of the
//! definition it resolves to, and every counter (code lens, incoming calls, CLI)
//! is inflated.

use pytest_language_server::FixtureDatabase;
use std::collections::HashSet;
use std::fs;

#[test]
fn usage_in_test_prefixed_fixture_is_listed_once() {
    let dir = tempfile::tempdir().unwrap();
    let root = dir.path().canonicalize().unwrap();
    let conftest = root.join("conftest.py");
    let src = "\
import pytest

@pytest.fixture
def app():
    return object()

@pytest.fixture
def test_client(app):
    return app
";
    fs::write(&conftest, src).unwrap();
    let test_file = root.join("test_x.py");
    let test_src = "\
def test_it(test_client):
    pass
";
    fs::write(&test_file, test_src).unwrap();

    let db = FixtureDatabase::new();
    db.scan_workspace(&root);

    let app_def = db
        .definitions
        .get("app")
        .unwrap()
        .iter()
        .find(|d| d.file_path == conftest)
        .unwrap()
        .clone();

    // go-to-definition on the one and only usage of `app` (line 8, 1-based; col 16)
    let landed = db
        .find_fixture_definition(&conftest, 7, 16)
        .expect("goto on the `app` parameter must land somewhere");
    assert_eq!(landed, app_def);

    let refs = db.find_references_for_definition(&app_def);
    let positions: Vec<(std::path::PathBuf, usize, usize)> = refs
        .iter()
        .map(|u| (u.file_path.clone(), u.line, u.start_char))
        .collect();
    let distinct: HashSet<_> = positions.iter().cloned().collect();
    println!("references of `app`: {:?}", positions);
    println!(
        "per-file usages: {:?}",
        db.usages
            .get(&conftest)
            .map(|u| u.iter().map(|x| (x.name.clone(), x.line, x.start_char)).collect::<Vec<_>>())
    );
    assert_eq!(
        positions.len(),
        distinct.len(),
        "the same usage is listed more than once among the references of `app`"
    );
    assert_eq!(positions.len(), 1, "`app` is requested exactly once in the workspace");
}
