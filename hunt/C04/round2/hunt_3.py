#!/usr/bin/env python3
"""C04 hunt 3 over the real binary: find-references on a usage that resolves to NOTHING
falls back to plain name matching over the whole workspace, so the answer contains usages
that go-to-definition attributes to an unrelated definition (another directory's conftest).
Also: on the self-named parameter of a fixture without parent, find-references answers with
the references of the fixture itself although go-to-definition answers nothing."""
import os, sys, shutil, tempfile
sys.path.insert(0, os.path.dirname(os.path.abspath(__file__)))
from hunt_lsp import LSP, path_of
BIN = os.environ.get("PLS", os.path.join(os.path.dirname(os.path.abspath(__file__)), "target/debug/pytest-language-server"))
root = os.path.realpath(tempfile.mkdtemp(prefix="h2c04_"))
def w(rel, s):
    p = os.path.join(root, rel); os.makedirs(os.path.dirname(p), exist_ok=True); open(p, "w").write(s); return p
w("b/conftest.py", "import pytest\n\n@pytest.fixture\ndef data():\n    return 1\n")
t2 = w("b/test_2.py", "def test_2(data):\n    pass\n")
t1 = w("a/test_1.py", "import pytest\n\n@pytest.mark.parametrize('data', [1, 2])\ndef test_1(data):\n    pass\n")
t3 = w("c/test_3.py", "import pytest\n\n@pytest.fixture\ndef solo(solo):\n    return solo\n\ndef test_3(solo):\n    pass\n")
l = LSP(BIN, root)
bad = False
d = l.definition(t1, 3, 11)
print("go-to-definition on `data` in a/test_1.py:", d)
print("find-references on the same position:")
for r in l.refs(t1, 3, 11):
    p = path_of(r["uri"]); pos = r["range"]["start"]
    g = l.definition(p, pos["line"], pos["character"])
    g = g and os.path.relpath(path_of(g["uri"]), root) + ":" + str(g["range"]["start"]["line"] + 1)
    print("   %-12s line %d   (go-to-definition there -> %s)" % (os.path.relpath(p, root), pos["line"] + 1, g))
    if d is None and g is not None: bad = True
d = l.definition(t3, 3, 9)
print("go-to-definition on parameter `solo` of fixture solo (no parent):", d)
refs = l.refs(t3, 3, 9)
print("find-references on the same position:", [(os.path.relpath(path_of(r["uri"]), root), r["range"]["start"]["line"] + 1, r["range"]["start"]["character"]) for r in refs])
if d is None and refs: bad = True
l.stop(); shutil.rmtree(root)
print("VIOLATION" if bad else "ok")
sys.exit(1 if bad else 0)
