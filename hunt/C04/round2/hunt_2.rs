//! C04 hunt 2: the index never forgets a file that disappears from disk. The server has no
//! handler for deleted / renamed files (no didChangeWatchedFiles, no didDeleteFiles) and
//! did_close only drops the text. After `git mv test_b.py test_c.py` (document closed, new
//! one opened) the usages of the old path stay in `usages` and in the `usage_by_fixture`
//! reverse index: the fixture shows one usage too many, find-references points into a file
//! that does not exist, and go-to-definition on that listed usage answers nothing.
use pytest_language_server::FixtureDatabase;
use std::fs;

#[test]
fn renamed_test_file_leaves_ghost_usages() {
    let tmp = tempfile::tempdir().unwrap();
    let root = tmp.path().canonicalize().unwrap();
    fs::write(
        root.join("conftest.py"),
        "import pytest\n\n@pytest.fixture\ndef x():\n    return 1\n",
    )
    .unwrap();
    let test_a = root.join("test_a.py");
    let test_b = root.join("test_b.py");
    let test_c = root.join("test_c.py");
    let body = "def test_2(x):\n    pass\n";
    fs::write(&test_a, "def test_1(x):\n    pass\n").unwrap();
    fs::write(&test_b, body).unwrap();

    let db = FixtureDatabase::new();
    db.scan_workspace(&root);
    let def = db.definitions.get("x").unwrap()[0].clone();
    assert_eq!(db.find_references_for_definition(&def).len(), 2);

    // what main.rs does for didOpen / didClose of test_b.py
    db.document_opened(&test_b);
    db.analyze_file(test_b.clone(), body);
    db.document_closed(&test_b);
    db.cleanup_file_cache(&test_b);
    // the user renames the file (nothing reaches the server), then opens the new one
    fs::rename(&test_b, &test_c).unwrap();
    db.document_opened(&test_c);
    db.analyze_file(test_c.clone(), body);

    let refs = db.find_references_for_definition(&def);
    for u in &refs {
        let landed = db.find_fixture_definition(&u.file_path, (u.line - 1) as u32, u.start_char as u32);
        println!(
            "listed: {}:{} exists_on_disk={} go-to-definition lands on D: {}",
            u.file_path.file_name().unwrap().to_string_lossy(),
            u.line,
            u.file_path.exists(),
            landed.as_ref() == Some(&def)
        );
    }
    let ghosts: Vec<_> = refs
        .iter()
        .filter(|u| db.find_fixture_definition(&u.file_path, (u.line - 1) as u32, u.start_char as u32).as_ref() != Some(&def))
        .collect();
    assert!(ghosts.is_empty(), "usages listed under D on which go-to-definition does not land on D");
    assert_eq!(refs.len(), 2, "the workspace contains exactly two usages of x");
}
