#!/usr/bin/env python3
"""C04 hunt 5 (adjacent): textDocument/references ignores context.includeDeclaration.
With includeDeclaration=false the answer still starts with the definition (a zero-width
range at column 0 of the def line), so the number of locations is always lens count + 1."""
import os, sys, shutil, tempfile
sys.path.insert(0, os.path.dirname(os.path.abspath(__file__)))
from hunt_lsp import LSP, path_of
BIN = os.environ.get("PLS", os.path.join(os.path.dirname(os.path.abspath(__file__)), "target/debug/pytest-language-server"))
root = os.path.realpath(tempfile.mkdtemp(prefix="h2c04_"))
def w(rel, s):
    p = os.path.join(root, rel); open(p, "w").write(s); return p
conf = w("conftest.py", "import pytest\n\n@pytest.fixture\ndef x():\n    return 1\n")
ta = w("test_a.py", "def test_1(x):\n    pass\n")
l = LSP(BIN, root)
lens = l.lenses(conf)[0]["command"]["title"]
with_decl = l.refs(conf, 3, 4, decl=True)
without = l.refs(conf, 3, 4, decl=False)
print("code lens:", lens)
print("references includeDeclaration=true :", [(os.path.basename(path_of(r["uri"])), r["range"]["start"]) for r in with_decl])
print("references includeDeclaration=false:", [(os.path.basename(path_of(r["uri"])), r["range"]["start"]) for r in without])
l.stop(); shutil.rmtree(root)
bad = len(without) != 1
print("VIOLATION: declaration returned although includeDeclaration=false" if bad else "ok")
sys.exit(1 if bad else 0)
