#!/usr/bin/env python3
"""C04 hunt 2 over the real binary: rename a test file on disk (didClose old, didOpen new).
Expected: fixture x keeps 2 usages. Actual: code lens says 3, references point into the
file that no longer exists, go-to-definition there answers nothing."""
import os, sys, shutil, tempfile
sys.path.insert(0, os.path.dirname(os.path.abspath(__file__)))
from hunt_lsp import LSP, path_of
BIN = os.environ.get("PLS", os.path.join(os.path.dirname(os.path.abspath(__file__)), "target/debug/pytest-language-server"))
root = os.path.realpath(tempfile.mkdtemp(prefix="h2c04_"))
def w(rel, s):
    p = os.path.join(root, rel); open(p, "w").write(s); return p
conf = w("conftest.py", "import pytest\n\n@pytest.fixture\ndef x():\n    return 1\n")
ta = w("test_a.py", "def test_1(x):\n    pass\n")
tb = w("test_b.py", "def test_2(x):\n    pass\n")
l = LSP(BIN, root)
print("before:", l.lenses(conf)[0]["command"]["title"])
l.open(tb); l.close(tb)
tc = os.path.join(root, "test_c.py"); os.rename(tb, tc)
l.open(tc)
title = l.lenses(conf)[0]["command"]["title"]
print("after rename test_b.py -> test_c.py:", title)
bad = title != "2 usages"
for r in l.refs(conf, 3, 4):
    p = path_of(r["uri"]); pos = r["range"]["start"]
    if p == conf: continue
    d = l.definition(p, pos["line"], pos["character"])
    print("  reference %-10s line %d exists=%s  go-to-definition -> %s" % (os.path.basename(p), pos["line"] + 1, os.path.exists(p), d and os.path.basename(path_of(d["uri"]))))
    bad |= d is None
l.stop(); shutil.rmtree(root)
sys.exit(1 if bad else 0)
