import json, subprocess, sys, os, time, threading, queue, pathlib

class LSP:
    def __init__(self, binary, root, env=None):
        self.p = subprocess.Popen([binary], stdin=subprocess.PIPE, stdout=subprocess.PIPE, stderr=subprocess.DEVNULL, env=env)
        self.id = 0
        self.q = queue.Queue()
        self.notes = []
        self.t = threading.Thread(target=self._reader, daemon=True)
        self.t.start()
        self.root = root
        r = self.req("initialize", {"processId": None, "rootUri": uri(root), "capabilities": {}})
        self.note("initialized", {})
        # wait scan complete
        deadline = time.time() + 30
        while time.time() < deadline:
            if any(n.get("method") == "window/logMessage" and "scan complete" in n["params"]["message"].lower() for n in self.notes):
                break
            time.sleep(0.05)
        else:
            raise RuntimeError("scan did not complete")

    def _reader(self):
        f = self.p.stdout
        while True:
            hdr = {}
            while True:
                line = f.readline()
                if not line:
                    return
                line = line.decode().strip()
                if not line:
                    break
                k, v = line.split(":", 1)
                hdr[k.lower()] = v.strip()
            n = int(hdr["content-length"])
            body = json.loads(f.read(n).decode())
            if "id" in body and "method" in body:
                # server->client request: answer null
                self._send({"jsonrpc": "2.0", "id": body["id"], "result": None})
            elif "id" in body:
                self.q.put(body)
            else:
                self.notes.append(body)

    def _send(self, msg):
        data = json.dumps(msg).encode()
        self.p.stdin.write(b"Content-Length: %d\r\n\r\n" % len(data) + data)
        self.p.stdin.flush()

    def req(self, method, params):
        self.id += 1
        self._send({"jsonrpc": "2.0", "id": self.id, "method": method, "params": params})
        while True:
            r = self.q.get(timeout=30)
            if r.get("id") == self.id:
                if "error" in r:
                    raise RuntimeError(r["error"])
                return r.get("result")

    def note(self, method, params):
        self._send({"jsonrpc": "2.0", "method": method, "params": params})

    def open(self, path, text=None):
        if text is None:
            text = open(path, newline="").read()
        self.note("textDocument/didOpen", {"textDocument": {"uri": uri(path), "languageId": "python", "version": 1, "text": text}})

    def change(self, path, text, version=2):
        self.note("textDocument/didChange", {"textDocument": {"uri": uri(path), "version": version}, "contentChanges": [{"text": text}]})

    def close(self, path):
        self.note("textDocument/didClose", {"textDocument": {"uri": uri(path)}})

    def lenses(self, path):
        return self.req("textDocument/codeLens", {"textDocument": {"uri": uri(path)}}) or []

    def refs(self, path, line, ch, decl=False):
        return self.req("textDocument/references", {"textDocument": {"uri": uri(path)}, "position": {"line": line, "character": ch}, "context": {"includeDeclaration": decl}}) or []

    def definition(self, path, line, ch):
        return self.req("textDocument/definition", {"textDocument": {"uri": uri(path)}, "position": {"line": line, "character": ch}})

    def prepare(self, path, line, ch):
        return self.req("textDocument/prepareCallHierarchy", {"textDocument": {"uri": uri(path)}, "position": {"line": line, "character": ch}}) or []

    def incoming(self, item):
        return self.req("callHierarchy/incomingCalls", {"item": item}) or []

    def stop(self):
        try:
            self.req("shutdown", None)
            self.note("exit", None)
        except Exception:
            pass
        time.sleep(0.2)
        self.p.kill()

def uri(p):
    return pathlib.Path(p).resolve().as_uri() if os.path.exists(p) else "file://" + str(p)

def path_of(u):
    from urllib.parse import urlparse, unquote
    return unquote(urlparse(u).path)

def audit(l, files):
    """for every lens: compare lens count, references (minus declaration), incoming calls, and goto-def on each reference."""
    bad = 0
    for f in files:
        for lens in l.lenses(f):
            title = lens["command"]["title"]
            n = int(title.split()[0])
            _, line, ch = lens["command"]["arguments"]
            refs = l.refs(f, line, ch, decl=False)
            decl = [r for r in refs if path_of(r["uri"]) == os.path.realpath(f) and r["range"]["start"]["line"] == line and r["range"]["start"]["character"] == 0 and r["range"]["end"]["character"] == 0]
            uses = [r for r in refs if r not in decl]
            items = l.prepare(f, line, ch)
            inc = l.incoming(items[0]) if items else []
            tag = f"{os.path.basename(f)}:{line+1}"
            if not (n == len(uses) == len(inc)) or decl:
                print(f"COUNT {tag}: lens={n} references(includeDeclaration=false)={len(uses)} (+{len(decl)} declaration) incoming={len(inc)}")
                if not (n == len(uses) == len(inc)): bad += 1
            for r in uses:
                d = l.definition(path_of(r["uri"]), r["range"]["start"]["line"], r["range"]["start"]["character"])
                ok = d and path_of(d["uri"]) == os.path.realpath(f) and d["range"]["start"]["line"] == line
                if not ok:
                    print(f"GOTO  {tag}: reference {os.path.basename(path_of(r['uri']))}:{r['range']['start']['line']+1}:{r['range']['start']['character']}-{r['range']['end']['character']} -> definition {d and (os.path.basename(path_of(d['uri'])), d['range']['start']['line']+1)}")
                    bad += 1
    return bad

if __name__ == "__main__":
    root = sys.argv[1]
    binary = os.environ.get("PLS", "/tmp/wt/h2_C04/target/debug/pytest-language-server")
    l = LSP(binary, root)
    files = []
    for dp, dn, fn in os.walk(root):
        for x in fn:
            if x.endswith(".py"):
                files.append(os.path.join(dp, x))
    print("violations:", audit(l, sorted(files)))
    l.stop()
