//! C04 hunt 4 (minor): the range of a usefixtures / indirect usage is computed as
//! "string literal range minus one character on each side". With a string prefix
//! (`u"db"`, `r"db"`) or triple quotes the reported usage starts on a quote character,
//! where go-to-definition answers nothing although the usage is listed under the fixture.
use pytest_language_server::FixtureDatabase;
use std::fs;

#[test]
fn prefixed_or_triple_quoted_usefixtures_names() {
    let tmp = tempfile::tempdir().unwrap();
    let root = tmp.path().canonicalize().unwrap();
    fs::write(
        root.join("conftest.py"),
        "import pytest\n\n@pytest.fixture\ndef db():\n    return 1\n",
    )
    .unwrap();
    let test = root.join("test_x.py");
    let src = "import pytest\n\n@pytest.mark.usefixtures(u\"db\")\ndef test_1():\n    pass\n\n@pytest.mark.usefixtures('''db''')\ndef test_2():\n    pass\n";
    fs::write(&test, src).unwrap();

    let db = FixtureDatabase::new();
    db.scan_workspace(&root);
    let def = db.definitions.get("db").unwrap()[0].clone();
    let refs = db.find_references_for_definition(&def);
    assert_eq!(refs.len(), 2);
    let mut failures = 0;
    for u in &refs {
        let line = src.lines().nth(u.line - 1).unwrap();
        let landed = db.find_fixture_definition(&test, (u.line - 1) as u32, u.start_char as u32);
        println!(
            "listed usage line {} chars {}..{} = {:?}; go-to-definition at its start -> {:?}",
            u.line,
            u.start_char,
            u.end_char,
            &line[u.start_char..u.end_char],
            landed.as_ref().map(|d| &d.name)
        );
        if landed.as_ref() != Some(&def) || &line[u.start_char..u.end_char] != "db" {
            failures += 1;
        }
    }
    assert_eq!(failures, 0, "listed usages whose reported range is not the name / does not navigate back");
}
