//! C04 hunt 1: `@pytest.mark.parametrize("a, b", ..., indirect=True)` records one usage per
//! name, but every one of them carries the range of the WHOLE string literal. The usage of
//! `b` therefore starts on `a`: it is listed among the references of fixture `b`, yet
//! go-to-definition on it (at the position find-references reports) lands on fixture `a`.
use pytest_language_server::FixtureDatabase;
use std::fs;

#[test]
fn parametrize_indirect_second_name_is_listed_under_b_but_navigates_to_a() {
    let tmp = tempfile::tempdir().unwrap();
    let root = tmp.path().canonicalize().unwrap();
    fs::write(
        root.join("conftest.py"),
        "import pytest\n\n@pytest.fixture\ndef a(request):\n    return request.param\n\n@pytest.fixture\ndef b(request):\n    return request.param\n",
    )
    .unwrap();
    let test = root.join("test_x.py");
    fs::write(
        &test,
        "import pytest\n\n@pytest.mark.parametrize(\"a, b\", [(1, 2)], indirect=True)\ndef test_1(a, b):\n    pass\n",
    )
    .unwrap();

    let db = FixtureDatabase::new();
    db.scan_workspace(&root);

    let def_a = db.definitions.get("a").unwrap()[0].clone();
    let def_b = db.definitions.get("b").unwrap()[0].clone();

    // the usage of `b` inside the parametrize string (line 3)
    let refs_b = db.find_references_for_definition(&def_b);
    let u = refs_b
        .iter()
        .find(|u| u.file_path == test && u.line == 3)
        .expect("the parametrize usage of b is listed among the references of b")
        .clone();
    println!(
        "usage of b listed for definition b: line {} chars {}..{}  (text there: {:?})",
        u.line,
        u.start_char,
        u.end_char,
        &"@pytest.mark.parametrize(\"a, b\", [(1, 2)], indirect=True)"[u.start_char..u.end_char]
    );

    // inverse direction: go-to-definition on that very usage
    let landed = db
        .find_fixture_definition(&test, (u.line - 1) as u32, u.start_char as u32)
        .expect("go-to-definition on the listed usage finds something");
    println!("go-to-definition on it lands on: {} ({}:{})", landed.name, landed.file_path.display(), landed.line);

    // second symptom of the shared range: the name reported for the position of `b`
    let name_at_b = db.find_fixture_at_position(&test, 2, 29);
    println!("find_fixture_at_position on the letter b: {:?}", name_at_b);

    assert_ne!(landed, def_a, "usage listed under b navigates to a");
    assert_eq!(landed, def_b);
    assert_eq!(name_at_b.as_deref(), Some("b"));
}
