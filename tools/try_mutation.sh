#!/bin/sh
# tools/try_mutation.sh <patch.diff> <Cxx> [<Cxx> ...]
# Copies /repo (src only) to a scratch directory, applies the patch there and runs the given checks
# (quick tier) against that copy via PLSIM_REPO - /repo itself is never modified.  Evidence and replay
# files of these runs go to a scratch directory, not to /verif.  Prints one line per check.
set -u
HERE=$(cd "$(dirname "$0")/.." && pwd)
PATCH=$(readlink -f "$1"); shift
SCR=$(mktemp -d /tmp/plsim_mut.XXXXXX)
mkdir -p "$SCR/repo" "$SCR/out"
cp -r /repo/src "$SCR/repo/src"
( cd "$SCR/repo" && patch -p1 --quiet < "$PATCH" ) || { echo "patch does not apply"; rm -rf "$SCR"; exit 2; }
cp "$HERE/known_findings.json" "$SCR/out/"
# a change that makes an operation loop without a scheduling point is reported by the supervisor's wall-clock watchdog
export PLSIM_STUCK_S="${PLSIM_STUCK_S:-60}"
for P in "$@"; do
  START=$(date +%s)
  OUT=$(PLSIM_REPO="$SCR/repo" PLSIM_VERIF_DIR="$SCR/out" PLSIM_WALL_CAP_S="${PLSIM_WALL_CAP_S:-300}" "$HERE/check" "$P" --tier "${TIER:-quick}" 2>&1)
  CODE=$?
  END=$(date +%s)
  CLASS=$(echo "$OUT" | grep -m1 "^plsim: minimised violation\|^plsim: violation" | cut -c1-400)
  echo "$P exit=$CODE time=$((END-START))s $(echo "$OUT" | grep -m1 '^VIOLATION') :: $CLASS"
done
# restore the harness build to /repo's sources
"$HERE/check" build >/dev/null 2>&1
rm -rf "$SCR"
