#!/bin/sh
# tools/run_seeded.sh [id-prefix]: re-run, for every seeded change under /verif/seeded, the checks recorded as catching it
# (meta.json: caught_by) and print CAUGHT / MISSED per (change, check).  Results go to stdout only.
HERE=$(cd "$(dirname "$0")/.." && pwd)
for d in "$HERE"/seeded/${1:-}*/; do
  id=$(basename "$d")
  checks=$(python3 -c "import json,sys;print(' '.join(json.load(open(sys.argv[1]))['caught_by']))" "$d/meta.json")
  # a change that no longer breaks its property on the current tree (meta.json: obsolete) has nothing to be caught by
  if [ -z "$checks" ]; then
    # meta.json: missed = a confirmed change that no check catches yet (recorded honestly, DESIGN 17.10)
    if grep -q '"missed": true' "$d/meta.json"; then echo "NOT-CAUGHT-RECORDED $id"; else echo "OBSOLETE $id"; fi
    continue
  fi
  "$HERE/tools/try_mutation.sh" "$d/patch.diff" $checks 2>&1 | while read -r line; do
    case "$line" in
      *"exit=1"*VIOLATION*) echo "CAUGHT $id ${line%% *} $(echo "$line" | sed 's/.*class \([^:]*\):.*/\1/' | cut -c1-60)";;
      *"exit="*) echo "MISSED $id $line" | cut -c1-200;;
      *) echo "?? $id $line" | cut -c1-200;;
    esac
  done
done
