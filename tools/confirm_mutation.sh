#!/bin/sh
# tools/confirm_mutation.sh <worktree> <n>: confirm in the scratch worktree that mutation<n>.diff compiles, keeps the
# existing suite green, and that demo<n> fails with it and passes without it.
WT=$1; N=$2
cd "$WT" || exit 2
git checkout -q -- src 2>/dev/null; rm -f tests/demo_mut$N.rs
git apply mutation$N.diff || { echo "APPLY-FAILED"; exit 2; }
SUITE=$(CARGO_NET_OFFLINE=true cargo test --workspace --no-fail-fast --offline 2>&1 | grep -E "^test result" | awk '{p+=$4; f+=$6} END {print "passed="p" failed="f}')
if [ -f demo$N.rs ]; then
  cp demo$N.rs tests/demo_mut$N.rs
  WITH=$(CARGO_NET_OFFLINE=true cargo test --offline --test demo_mut$N 2>&1 | grep -E "^test result" | tail -1)
  git checkout -q -- src
  WITHOUT=$(CARGO_NET_OFFLINE=true cargo test --offline --test demo_mut$N 2>&1 | grep -E "^test result" | tail -1)
  rm -f tests/demo_mut$N.rs
else
  git checkout -q -- src
  WITH="(no rust demo)"; WITHOUT="(no rust demo)"
fi
echo "suite-with-mutation: $SUITE | demo with: $WITH | demo without: $WITHOUT"
